//! Calls the generator of pest-typed as a library (no compilation of its output):
//! panic / no panic per grammar (C11), the emitted token stream (C20 determinism), getter signatures (C16).
use proc_macro2::TokenStream;
use quote::quote;
use serde_json::{json, Value};
use std::io::{BufRead, Write};
use std::panic::{catch_unwind, AssertUnwindSafe};

fn attrs(opts: &Value) -> TokenStream {
    let mut ts = TokenStream::new();
    if let Some(m) = opts.as_object() {
        for (k, v) in m {
            let id = quote::format_ident!("{}", k);
            let b = v.as_bool().unwrap_or(false);
            ts.extend(quote! { #[#id = #b] });
        }
    }
    ts
}

fn fnv(s: &str) -> String {
    let mut h: u64 = 0xcbf29ce484222325;
    for b in s.bytes() {
        h ^= b as u64;
        h = h.wrapping_mul(0x100000001b3);
    }
    format!("{:016x}", h)
}

/// signatures of the generated getters: rule -> [(getter, return type)]
fn getters(ts: &TokenStream) -> Value {
    let file: syn::File = match syn::parse2(ts.clone()) {
        Ok(f) => f,
        Err(e) => return json!({"parse_error": e.to_string()}),
    };
    let mut out = serde_json::Map::new();
    fn walk(items: &[syn::Item], out: &mut serde_json::Map<String, Value>) {
        for it in items {
            match it {
                syn::Item::Mod(m) => {
                    if let Some((_, items)) = &m.content {
                        walk(items, out);
                    }
                }
                syn::Item::Impl(im) if im.trait_.is_none() => {
                    let ty = &im.self_ty;
                    let tname = quote!(#ty).to_string();
                    let name = tname.split('<').next().unwrap().trim().trim_start_matches("r#").to_string();
                    for ii in &im.items {
                        if let syn::ImplItem::Fn(f) = ii {
                            let ret = match &f.sig.output {
                                syn::ReturnType::Type(_, t) => quote!(#t).to_string(),
                                _ => "()".into(),
                            };
                            let e = out.entry(name.clone()).or_insert(json!([]));
                            e.as_array_mut().unwrap().push(json!([f.sig.ident.to_string().trim_start_matches("r#"), ret]));
                        }
                    }
                }
                _ => {}
            }
        }
    }
    walk(&file.items, &mut out);
    Value::Object(out)
}

/// `boxed` argument (the last one) of every `::pest_typed::rule!(name, ..., true|false)` invocation of the emitted code
fn boxed_flags(s: &str) -> Value {
    let mut out = serde_json::Map::new();
    let pat = "pest_typed :: rule ! (";
    let mut from = 0;
    while let Some(i) = s[from..].find(pat) {
        let start = from + i + pat.len();
        let bytes = s.as_bytes();
        let (mut depth, mut j) = (1i32, start);
        let mut in_str = false;
        while j < bytes.len() && depth > 0 {
            let c = bytes[j];
            if in_str {
                if c == b'\\' {
                    j += 1;
                } else if c == b'"' {
                    in_str = false;
                }
            } else if c == b'"' {
                in_str = true;
            } else if c == b'(' {
                depth += 1;
            } else if c == b')' {
                depth -= 1;
            }
            j += 1;
        }
        let body = &s[start..j.saturating_sub(1)];
        let name = body.split(',').next().unwrap_or("").trim().trim_start_matches("r#").to_string();
        let last = body.rsplit(',').next().unwrap_or("").trim();
        out.insert(name, match last {
            "true" => json!(true),
            "false" => json!(false),
            other => json!(other),
        });
        from = j;
    }
    Value::Object(out)
}

fn main() {
    std::panic::set_hook(Box::new(|_| {}));
    let stdin = std::io::stdin();
    let out = std::io::stdout();
    let mut o = out.lock();
    for line in stdin.lock().lines() {
        let line = line.unwrap();
        if line.trim().is_empty() {
            continue;
        }
        let v: Value = serde_json::from_str(&line).unwrap();
        let text = v["text"].as_str().unwrap().to_string();
        let a = attrs(&v["opts"]);
        // "split": every rule in its own #[grammar_inline] attribute (the sources are concatenated by the derive)
        let parts: Vec<String> = if v["split"].as_bool() == Some(true) {
            text.lines().filter(|l| !l.trim().is_empty()).map(|l| format!("{}\n", l)).collect()
        } else {
            vec![text.clone()]
        };
        let input = quote! {
            #( #[grammar_inline = #parts] )*
            #a
            struct P;
        };
        let r = catch_unwind(AssertUnwindSafe(|| pest_typed_generator::derive_typed_parser(input, false, true)));
        let res = match r {
            Ok(ts) => {
                let s = ts.to_string();
                let mut m = json!({"panic": false, "hash": fnv(&s), "len": s.len()});
                if v["want"].as_str() == Some("getters") {
                    m["getters"] = getters(&ts);
                }
                if v["want"].as_str() == Some("boxed") {
                    m["boxed"] = boxed_flags(&s);
                }
                if v["want"].as_str() == Some("tokens") {
                    m["tokens"] = json!(s);
                }
                m
            }
            Err(p) => {
                let msg = p.downcast_ref::<String>().cloned().or_else(|| p.downcast_ref::<&str>().map(|s| s.to_string())).unwrap_or_default();
                json!({"panic": true, "msg": msg.chars().take(300).collect::<String>()})
            }
        };
        let _ = writeln!(o, "{}", json!({"idx": v["idx"], "obs": res}));
    }
}
