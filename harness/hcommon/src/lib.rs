//! Shared runner code: executes the real pest-typed (and the pest twin) on jobs that
//! come from TLC behaviours, and prints what the public API exposes as JSON.
#![allow(clippy::type_complexity)]

use pest_typed::iterators::{Pairs, Token};
use pest_typed::tracker::Tracker;
use pest_typed::{Input, ParsableTypedNode, Position, RuleType, Span, Stack};
use serde_json::{json, Map, Value};
use std::fmt::Debug;
use std::hash::{Hash, Hasher};
use std::panic::{catch_unwind, AssertUnwindSafe};

pub struct Job {
    pub idx: u64,
    pub g: String,
    pub rule: String,
    pub full: String,
    pub lo: usize,
    pub hi: usize,
    pub has_pre: bool,
    pub has_post: bool,
    pub modes: String,
    pub raw: Value,
}

fn cps_to_string(v: &Value) -> String {
    v.as_array()
        .map(|a| {
            a.iter()
                .map(|c| char::from_u32(c.as_u64().unwrap() as u32).unwrap())
                .collect()
        })
        .unwrap_or_default()
}

impl Job {
    pub fn from_json(v: &Value) -> Job {
        let pre = cps_to_string(&v["pre"]);
        let inp = cps_to_string(&v["inp"]);
        let post = cps_to_string(&v["post"]);
        let lo = pre.len();
        let hi = lo + inp.len();
        Job {
            idx: v["idx"].as_u64().unwrap_or(0),
            g: v["g"].as_str().unwrap().to_string(),
            rule: v["rule"].as_str().unwrap().to_string(),
            full: format!("{pre}{inp}{post}"),
            lo,
            hi,
            has_pre: !pre.is_empty(),
            has_post: !post.is_empty(),
            modes: v["modes"].as_str().unwrap_or("").to_string(),
            raw: v.clone(),
        }
    }
    pub fn has(&self, m: char) -> bool {
        self.modes.contains(m)
    }
}

fn flatten<'i, R: RuleType>(toks: &[Token<'i, R>], d: usize, lo: usize, out: &mut Vec<Value>) {
    for t in toks {
        out.push(json!([
            format!("{:?}", t.rule),
            t.span.start() as i64 - lo as i64,
            t.span.end() as i64 - lo as i64,
            d
        ]));
        flatten(&t.children, d + 1, lo, out);
    }
}

/// Every reported offset must be inside [lo,hi] and on a char boundary of `full` (C09).
fn bad_offset(full: &str, lo: usize, hi: usize, o: usize) -> bool {
    o < lo || o > hi || !full.is_char_boundary(o)
}

fn tok_offsets_bad<'i, R: RuleType>(toks: &[Token<'i, R>], full: &str, lo: usize, hi: usize) -> bool {
    toks.iter().any(|t| {
        bad_offset(full, lo, hi, t.span.start())
            || bad_offset(full, lo, hi, t.span.end())
            || t.span.start() > t.span.end()
            || tok_offsets_bad(&t.children, full, lo, hi)
    })
}

fn hash_of<T: Hash>(t: &T) -> String {
    let mut h = std::collections::hash_map::DefaultHasher::new();
    t.hash(&mut h);
    format!("{:016x}", h.finish())
}

fn strhash(s: &str) -> String {
    hash_of(&s)
}

fn tracker_json<'i, R: RuleType>(tr: Tracker<'i, R>, job: &Job) -> Value {
    let (pos, att) = tr.finish();
    let p = pos.pos();
    let mut list = vec![];
    for (upper, (ps, ns, ss)) in att {
        list.push(json!({
            "u": upper.map(|u| format!("{:?}", u)),
            "p": ps.iter().map(|r| format!("{:?}", r)).collect::<Vec<_>>(),
            "n": ns.iter().map(|r| format!("{:?}", r)).collect::<Vec<_>>(),
            "s": ss.iter().map(|s| s.to_string()).collect::<Vec<_>>(),
        }));
    }
    json!({"pos": p as i64 - job.lo as i64, "bad": bad_offset(&job.full, job.lo, job.hi, p), "att": list})
}

fn err_json<R: RuleType>(e: &pest_typed::error::Error<R>, job: &Job) -> Value {
    let loc = match e.location {
        pest_typed::error::InputLocation::Pos(p) => p,
        pest_typed::error::InputLocation::Span((p, _)) => p,
    };
    let disp = catch_unwind(AssertUnwindSafe(|| format!("{}", e)));
    let (l, c) = match e.line_col {
        pest_typed::error::LineColLocation::Pos(lc) => lc,
        pest_typed::error::LineColLocation::Span(lc, _) => lc,
    };
    json!({
        "loc": loc as i64 - job.lo as i64,
        "bad": bad_offset(&job.full, job.lo, job.hi, loc),
        "lc": [l, c],
        "disp": match disp { Ok(s) => if job.has('D') { json!(s) } else { json!(strhash(&s)) }, Err(_) => json!("PANIC") },
    })
}

fn node_json<'i, R: RuleType, T: Pairs<'i, R> + Debug + Hash>(node: &T, job: &Job) -> Map<String, Value> {
    let mut m = Map::new();
    let toks = node.self_or_children();
    let mut flat = vec![];
    flatten(&toks, 0, job.lo, &mut flat);
    m.insert("toks".into(), Value::Array(flat));
    if tok_offsets_bad(&toks, &job.full, job.lo, job.hi) {
        m.insert("badtok".into(), json!(true));
    }
    let dbg = format!("{:?}", node);
    m.insert("dbgh".into(), json!(strhash(&dbg)));
    if job.has('H') {
        // Span hashes the address of the input: only comparable inside one process
        m.insert("hash".into(), json!(hash_of(node)));
    }
    if job.has('G') {
        m.insert("dbg".into(), json!(dbg));
    }
    m
}

fn guard(f: impl FnOnce() -> Value) -> Value {
    match catch_unwind(AssertUnwindSafe(f)) {
        Ok(v) => v,
        Err(p) => {
            let msg = p
                .downcast_ref::<String>()
                .cloned()
                .or_else(|| p.downcast_ref::<&str>().map(|s| s.to_string()))
                .unwrap_or_default();
            json!({"panic": msg})
        }
    }
}

/// The four entry points (+ the `_with` variants that expose the tracker) on one input form.
fn four<'i, R: RuleType, T, A>(job: &Job, mk: impl Fn() -> A) -> Value
where
    T: ParsableTypedNode<'i, R> + Pairs<'i, R> + Debug + Hash,
    A: pest_typed::AsInput<'i>,
{
    let mut out = Map::new();
    // parse_partial: public API and tracker variant
    out.insert(
        "pp".into(),
        guard(|| match T::try_parse_partial(mk()) {
            Ok((rest, node)) => {
                let mut m = node_json::<R, T>(&node, job);
                m.insert("ok".into(), json!(true));
                let e = rest.byte_offset();
                m.insert("end".into(), json!(e as i64 - job.lo as i64));
                if bad_offset(&job.full, job.lo, job.hi, e) {
                    m.insert("badend".into(), json!(true));
                }
                Value::Object(m)
            }
            Err(e) => {
                let mut v = err_json(&e, job);
                if let Err(e2) = T::try_parse_partial(mk()) {
                    let a = catch_unwind(AssertUnwindSafe(|| format!("{}", e))).unwrap_or_default();
                    let b = catch_unwind(AssertUnwindSafe(|| format!("{}", e2))).unwrap_or_default();
                    v["nondet"] = json!(a != b);
                } else {
                    v["nondet"] = json!(true);
                }
                json!({"ok": false, "err": v})
            }
        }),
    );
    out.insert(
        "ppt".into(),
        guard(|| {
            let input = mk().as_input();
            let mut stack = Stack::new();
            let mut tracker = Tracker::new(input);
            let r = T::try_parse_partial_with(input, &mut stack, &mut tracker);
            let stk: Vec<Value> = stack[0..stack.len()]
                .iter()
                .map(|s| json!([s.start() as i64 - job.lo as i64, s.end() as i64 - job.lo as i64]))
                .collect();
            match r {
                Some((rest, _)) => json!({"ok": true, "end": rest.byte_offset() as i64 - job.lo as i64, "stk": stk, "trk": tracker_json(tracker, job)}),
                None => json!({"ok": false, "trk": tracker_json(tracker, job)}),
            }
        }),
    );
    out.insert(
        "cp".into(),
        guard(|| match T::try_check_partial(mk()) {
            Ok(rest) => {
                let e = rest.byte_offset();
                json!({"ok": true, "end": e as i64 - job.lo as i64, "badend": bad_offset(&job.full, job.lo, job.hi, e)})
            }
            Err(e) => json!({"ok": false, "err": err_json(&e, job)}),
        }),
    );
    out.insert(
        "cpt".into(),
        guard(|| {
            let input = mk().as_input();
            let mut stack = Stack::new();
            let mut tracker = Tracker::new(input);
            let r = T::try_check_partial_with(input, &mut stack, &mut tracker);
            let stk: Vec<Value> = stack[0..stack.len()]
                .iter()
                .map(|s| json!([s.start() as i64 - job.lo as i64, s.end() as i64 - job.lo as i64]))
                .collect();
            match r {
                Some(rest) => json!({"ok": true, "end": rest.byte_offset() as i64 - job.lo as i64, "stk": stk, "trk": tracker_json(tracker, job)}),
                None => json!({"ok": false, "trk": tracker_json(tracker, job)}),
            }
        }),
    );
    out.insert(
        "pf".into(),
        guard(|| match T::try_parse(mk()) {
            Ok(node) => {
                let mut m = node_json::<R, T>(&node, job);
                m.insert("ok".into(), json!(true));
                Value::Object(m)
            }
            Err(e) => json!({"ok": false, "err": err_json(&e, job)}),
        }),
    );
    out.insert(
        "pft".into(),
        guard(|| {
            let input = mk().as_input();
            let mut stack = Stack::new();
            let mut tracker = Tracker::new(input);
            match T::try_parse_with(input, &mut stack, &mut tracker) {
                Some(_) => json!({"ok": true, "trk": tracker_json(tracker, job)}),
                None => json!({"ok": false, "trk": tracker_json(tracker, job)}),
            }
        }),
    );
    out.insert(
        "cf".into(),
        guard(|| match T::try_check(mk()) {
            Ok(()) => json!({"ok": true}),
            Err(e) => json!({"ok": false, "err": err_json(&e, job)}),
        }),
    );
    out.insert(
        "cft".into(),
        guard(|| {
            let input = mk().as_input();
            let mut stack = Stack::new();
            let mut tracker = Tracker::new(input);
            match T::try_check_with(input, &mut stack, &mut tracker) {
                true => json!({"ok": true, "trk": tracker_json(tracker, job)}),
                false => json!({"ok": false, "trk": tracker_json(tracker, job)}),
            }
        }),
    );
    Value::Object(out)
}

/// Replace values equal to an earlier one by a back-reference, to keep the output small.
fn dedup(forms: Vec<(&'static str, Value)>) -> Value {
    let mut seen: Vec<(String, String)> = vec![];
    let mut out = Map::new();
    for (fname, v) in forms {
        let mut fm = Map::new();
        if let Value::Object(m) = v {
            for (k, val) in m {
                let s = val.to_string();
                let key = format!("{fname}.{k}");
                if let Some((prev, _)) = seen.iter().find(|(_, ps)| *ps == s) {
                    fm.insert(k, json!(format!("={prev}")));
                } else {
                    seen.push((key, s));
                    fm.insert(k, val);
                }
            }
        }
        out.insert(fname.into(), Value::Object(fm));
    }
    Value::Object(out)
}

/// Event-level trace of one try_parse_partial / try_check_partial on the first applicable form (hooks, direction B).
fn events<'i, R: RuleType, T, A>(job: &Job, mk: impl Fn() -> A) -> Value
where
    T: ParsableTypedNode<'i, R> + Pairs<'i, R> + Debug + Hash,
    A: pest_typed::AsInput<'i>,
{
    let conv = |ev: Vec<pest_typed::verif::Event>| -> Vec<Value> {
        ev.into_iter()
            .map(|(tag, name, a, b, stk)| {
                let st: Vec<Value> = stk.iter().map(|(s, e)| json!([*s as i64 - job.lo as i64, *e as i64 - job.lo as i64])).collect();
                match tag {
                    "r+" => json!(["r+", name, a as i64 - job.lo as i64]),
                    "r-" => json!(["r-", name, a as i64 - job.lo as i64, b == 1]),
                    "t+" => json!(["t+", st]),
                    "t-" => json!(["t-", a == 1, st]),
                    "p+" => json!(["p+", a == 0, st]),
                    "p-" => json!(["p-", a == 1, st]),
                    _ => json!([tag, st]),
                }
            })
            .collect()
    };
    let parse = guard(|| {
        pest_typed::verif::start();
        let r = T::try_parse_partial(mk());
        let ev = pest_typed::verif::take();
        json!({"ok": r.is_ok(), "ev": conv(ev)})
    });
    let check = guard(|| {
        pest_typed::verif::start();
        let r = T::try_check_partial(mk());
        let ev = pest_typed::verif::take();
        json!({"ok": r.is_ok(), "ev": conv(ev)})
    });
    let _ = pest_typed::verif::take();
    json!({"parse": parse, "check": check})
}

/// Observe the typed parser on a job through every entry point and applicable input form.
pub fn observe_typed<'i, R: RuleType, T>(job: &'i Job) -> Value
where
    T: ParsableTypedNode<'i, R> + Pairs<'i, R> + Debug + Hash,
{
    let mut forms: Vec<(&'static str, Value)> = vec![];
    let full: &'i str = job.full.as_str();
    if !job.has_pre && !job.has_post && job.has('s') {
        forms.push(("str", four::<R, T, &'i str>(job, || full)));
    }
    if !job.has_post && job.has('p') {
        match Position::new(full, job.lo) {
            Some(p) => forms.push(("pos", four::<R, T, Position<'i>>(job, || p))),
            None => forms.push(("pos", json!({"invalid": true}))),
        }
    }
    if job.has('n') {
        match Span::new(full, job.lo, job.hi) {
            Some(s) => forms.push(("span", four::<R, T, Span<'i>>(job, || s))),
            None => forms.push(("span", json!({"invalid": true}))),
        }
    }
    let mut out = dedup(forms);
    if job.has('E') {
        let ev = if !job.has_pre && !job.has_post {
            events::<R, T, &'i str>(job, || full)
        } else {
            match Span::new(full, job.lo, job.hi) {
                Some(sp) => events::<R, T, Span<'i>>(job, || sp),
                None => json!({"invalid": true}),
            }
        };
        out["events"] = ev;
    }
    out
}

fn flatten_pest<R: pest::RuleType>(pairs: pest::iterators::Pairs<'_, R>, d: usize, out: &mut Vec<Value>) {
    for p in pairs {
        let sp = p.as_span();
        out.push(json!([format!("{:?}", p.as_rule()), sp.start(), sp.end(), d]));
        flatten_pest(p.into_inner(), d + 1, out);
    }
}

/// Observe the pest twin (witness of the model, never of the code under test).
pub fn observe_pest<R: pest::RuleType, P: pest::Parser<R>>(rule: R, input: &str) -> Value {
    match catch_unwind(AssertUnwindSafe(|| P::parse(rule, input))) {
        Ok(Ok(pairs)) => {
            let mut flat = vec![];
            flatten_pest(pairs, 0, &mut flat);
            json!({"ok": true, "toks": flat})
        }
        Ok(Err(_)) => json!({"ok": false}),
        Err(_) => json!({"panic": true}),
    }
}

pub fn silence_panics() {
    std::panic::set_hook(Box::new(|_| {}));
}

/// Main loop of a family runner: JSON-lines jobs on stdin, JSON-lines observations on stdout.
pub fn run_main(dispatch: fn(&Job) -> Value) {
    use std::io::{BufRead, Write};
    silence_panics();
    let timeout_ms: u64 = std::env::var("VERIF_JOB_TIMEOUT_MS").ok().and_then(|s| s.parse().ok()).unwrap_or(20000);
    let beat = std::sync::Arc::new(std::sync::atomic::AtomicU64::new(0));
    let cur = std::sync::Arc::new(std::sync::atomic::AtomicU64::new(u64::MAX));
    {
        let beat = beat.clone();
        let cur = cur.clone();
        std::thread::spawn(move || {
            let mut last = (0u64, std::time::Instant::now());
            loop {
                std::thread::sleep(std::time::Duration::from_millis(200));
                let b = beat.load(std::sync::atomic::Ordering::SeqCst);
                if b != last.0 {
                    last = (b, std::time::Instant::now());
                } else if cur.load(std::sync::atomic::Ordering::SeqCst) != u64::MAX
                    && last.1.elapsed().as_millis() as u64 > timeout_ms
                {
                    // a parse did not return: report and die (the driver restarts after this job)
                    let idx = cur.load(std::sync::atomic::Ordering::SeqCst);
                    let out = std::io::stdout();
                    let mut o = out.lock();
                    let _ = writeln!(o, "{}", json!({"idx": idx, "timeout": true}));
                    let _ = o.flush();
                    std::process::exit(3);
                }
            }
        });
    }
    let worker = std::thread::Builder::new()
        .stack_size(1 << 29)
        .spawn(move || {
            let stdin = std::io::stdin();
            let out = std::io::stdout();
            for line in stdin.lock().lines() {
                let line = line.unwrap();
                if line.trim().is_empty() {
                    continue;
                }
                let v: Value = serde_json::from_str(&line).unwrap();
                let job = Job::from_json(&v);
                cur.store(job.idx, std::sync::atomic::Ordering::SeqCst);
                beat.fetch_add(1, std::sync::atomic::Ordering::SeqCst);
                // a panic anywhere in the code under test is data, never the end of the runner
                let res = catch_unwind(AssertUnwindSafe(|| dispatch(&job))).unwrap_or_else(|p| {
                    let msg = p.downcast_ref::<String>().cloned().or_else(|| p.downcast_ref::<&str>().map(|s| s.to_string())).unwrap_or_default();
                    json!({"panic": msg})
                });
                cur.store(u64::MAX, std::sync::atomic::Ordering::SeqCst);
                let mut o = out.lock();
                let _ = writeln!(o, "{}", json!({"idx": job.idx, "obs": res}));
            }
            let _ = out.lock().flush();
        })
        .unwrap();
    let _ = worker.join();
}

fn tok3<'i, R: RuleType>(t: &Token<'i, R>, lo: usize) -> Value {
    json!([format!("{:?}", t.rule), t.span.start() as i64 - lo as i64, t.span.end() as i64 - lo as i64])
}

fn flatten_thin<R: RuleType>(t: &pest_typed::iterators::ThinToken<R>, d: usize, lo: usize, out: &mut Vec<Value>) {
    out.push(json!([format!("{:?}", t.rule), t.start as i64 - lo as i64, t.end as i64 - lo as i64, d]));
    for c in &t.children {
        flatten_thin(c, d + 1, lo, out);
    }
}

/// Pair API of a non-silent rule: children, as_token, as_thin_token (C15); the same observation through the Position and the
/// Span form of the whole input must be identical (`forms_agree`)
pub fn observe_pair<'i, R: RuleType, T>(job: &'i Job) -> Value
where
    T: ParsableTypedNode<'i, R> + pest_typed::iterators::Pair<'i, R>,
{
    macro_rules! one {
        ($input:expr) => {
            guard(|| match T::try_parse_partial($input) {
                Ok((_, node)) => {
                    let kids: Vec<Value> = node.children().iter().map(|t| tok3(t, 0)).collect();
                    let mut tok = vec![];
                    flatten(&[node.as_token()], 0, 0, &mut tok);
                    let mut thin = vec![];
                    flatten_thin(&node.as_thin_token(), 0, 0, &mut thin);
                    json!({"ok": true, "kids": kids, "token": tok, "thin": thin})
                }
                Err(_) => json!({"ok": false}),
            })
        };
    }
    let mut v = one!(job.full.as_str());
    let p = one!(Position::from_start(job.full.as_str()));
    let sp = one!(Span::new_full(job.full.as_str()));
    let agree = p == v && sp == v;
    if !agree {
        v["pos_form"] = p;
        v["span_form"] = sp;
    }
    v["forms_agree"] = json!(agree);
    v
}

/// Tree helpers of a rule that carries content: pre-order, level-order, rendering (C15)
pub fn observe_tree<'i, R: RuleType, T>(job: &'i Job) -> Value
where
    T: ParsableTypedNode<'i, R> + pest_typed::iterators::PairTree<'i, R>,
{
    macro_rules! one {
        ($input:expr) => {
            guard(|| match T::try_parse_partial($input) {
                Ok((_, node)) => {
                    let mut pre = vec![];
                    let r1: Result<(), ()> = node.iterate_pre_order(|t, d| {
                        pre.push(json!([format!("{:?}", t.rule), t.span.start(), t.span.end(), d]));
                        Ok(())
                    });
                    let mut lvl = vec![];
                    let r2: Result<(), ()> = node.iterate_level_order(|t, rest| {
                        lvl.push(json!([format!("{:?}", t.rule), t.span.start(), t.span.end(), rest]));
                        Ok(())
                    });
                    // an error returned by the callback must stop the walk and be passed on
                    let mut n = 0;
                    let r3: Result<(), u8> = node.iterate_pre_order(|_, _| {
                        n += 1;
                        if n == 2 { Err(7) } else { Ok(()) }
                    });
                    let render = node.format_as_tree().unwrap_or_else(|_| "FMT-ERROR".to_string());
                    json!({"ok": true, "pre": pre, "lvl": lvl, "render": render, "iter_ok": r1.is_ok() && r2.is_ok(),
                           "stop": [n, r3.is_err()]})
                }
                Err(_) => json!({"ok": false}),
            })
        };
    }
    let mut v = one!(job.full.as_str());
    let p = one!(Position::from_start(job.full.as_str()));
    let sp = one!(Span::new_full(job.full.as_str()));
    let agree = p == v && sp == v;
    if !agree {
        v["pos_form"] = p;
        v["span_form"] = sp;
    }
    v["forms_agree"] = json!(agree);
    v
}

/// Raw combinators used directly from the runtime crate (C19): parse and check path with a fresh stack / tracker.
pub fn observe_raw<'i, R: RuleType, T>(job: &'i Job, count: impl Fn(&T) -> i64) -> Value
where
    T: pest_typed::TypedNode<'i, R> + Debug,
{
    let s: &'i str = job.full.as_str();
    let stk_json = |stack: &Stack<Span<'i>>| -> Vec<Value> {
        stack[0..stack.len()].iter().map(|x| json!([x.start(), x.end()])).collect()
    };
    let parse = guard(|| {
        let input = Position::from_start(s);
        let mut stack = Stack::new();
        let mut tracker = Tracker::<R>::new(input);
        match T::try_parse_partial_with(input, &mut stack, &mut tracker) {
            Some((rest, node)) => json!({"ok": true, "end": rest.byte_offset(), "n": count(&node), "stk": stk_json(&stack),
                                        "dbgh": strhash(&format!("{:?}", node)), "bad": !s.is_char_boundary(rest.byte_offset())}),
            None => json!({"ok": false}),
        }
    });
    let check = guard(|| {
        let input = Position::from_start(s);
        let mut stack = Stack::new();
        let mut tracker = Tracker::<R>::new(input);
        match T::try_check_partial_with(input, &mut stack, &mut tracker) {
            Some(rest) => json!({"ok": true, "end": rest.byte_offset(), "stk": stk_json(&stack)}),
            None => json!({"ok": false}),
        }
    });
    json!({"parse": parse, "check": check})
}

/// The never-failing interface of the same combinators (NeverFailedTypedNode::parse_with / check_with), next to observe_raw.
pub fn observe_raw_nf<'i, R: RuleType, T>(job: &'i Job, count: impl Fn(&T) -> i64) -> Value
where
    T: pest_typed::TypedNode<'i, R> + pest_typed::NeverFailedTypedNode<'i, R> + Debug,
{
    let mut v = observe_raw::<R, T>(job, &count);
    let s: &'i str = job.full.as_str();
    let stk_json = |stack: &Stack<Span<'i>>| -> Vec<Value> {
        stack[0..stack.len()].iter().map(|x| json!([x.start(), x.end()])).collect()
    };
    let parse = guard(|| {
        let input = Position::from_start(s);
        let mut stack = Stack::new();
        let (rest, node) = <T as pest_typed::NeverFailedTypedNode<'i, R>>::parse_with(input, &mut stack);
        json!({"ok": true, "end": rest.byte_offset(), "n": count(&node), "stk": stk_json(&stack),
               "dbgh": strhash(&format!("{:?}", node))})
    });
    let check = guard(|| {
        let input = Position::from_start(s);
        let mut stack = Stack::new();
        let rest = <T as pest_typed::NeverFailedTypedNode<'i, R>>::check_with(input, &mut stack);
        json!({"ok": true, "end": rest.byte_offset(), "stk": stk_json(&stack)})
    });
    v["nf_parse"] = parse;
    v["nf_check"] = check;
    v
}

/// Flatten whatever a generated getter returns (&Rule, Option, Vec, tuples, nested) into the spans of the nodes (C16).
pub trait Flat<'i, R: RuleType> {
    fn flat(&self, out: &mut Vec<(usize, usize)>);
    fn shape(&self) -> String;
}
impl<'i, R: RuleType, T: pest_typed::Spanned<'i, R>> Flat<'i, R> for &T {
    fn flat(&self, out: &mut Vec<(usize, usize)>) {
        let s = self.span();
        out.push((s.start(), s.end()));
    }
    fn shape(&self) -> String {
        "x".into()
    }
}
impl<'i, R: RuleType, T: Flat<'i, R>> Flat<'i, R> for Option<T> {
    fn flat(&self, out: &mut Vec<(usize, usize)>) {
        if let Some(x) = self {
            x.flat(out)
        }
    }
    fn shape(&self) -> String {
        match self {
            Some(x) => format!("Some({})", x.shape()),
            None => "None".into(),
        }
    }
}
impl<'i, R: RuleType, T: Flat<'i, R>> Flat<'i, R> for Vec<T> {
    fn flat(&self, out: &mut Vec<(usize, usize)>) {
        for x in self {
            x.flat(out)
        }
    }
    fn shape(&self) -> String {
        format!("[{}]", self.iter().map(|x| x.shape()).collect::<Vec<_>>().join(","))
    }
}
macro_rules! flat_tuple {
    ($($t:ident $i:tt),*) => {
        impl<'i, R: RuleType, $($t: Flat<'i, R>),*> Flat<'i, R> for ($($t,)*) {
            fn flat(&self, out: &mut Vec<(usize, usize)>) { $( self.$i.flat(out); )* }
            fn shape(&self) -> String { format!("({})", vec![$( self.$i.shape() ),*].join(",")) }
        }
    };
}
flat_tuple!(A 0, B 1);
flat_tuple!(A 0, B 1, C 2);
flat_tuple!(A 0, B 1, C 2, D 3);
flat_tuple!(A 0, B 1, C 2, D 3, E 4);
flat_tuple!(A 0, B 1, C 2, D 3, E 4, F 5);
flat_tuple!(A 0, B 1, C 2, D 3, E 4, F 5, G 6);
flat_tuple!(A 0, B 1, C 2, D 3, E 4, F 5, G 6, H 7);

/// Same for getters of rules without a span (silent rules): only the number of nodes can be observed.
pub trait Cnt {
    fn cnt(&self) -> usize;
    fn cshape(&self) -> String;
}
impl<T> Cnt for &T {
    fn cnt(&self) -> usize {
        1
    }
    fn cshape(&self) -> String {
        "x".into()
    }
}
impl<T: Cnt> Cnt for Option<T> {
    fn cnt(&self) -> usize {
        self.as_ref().map(|x| x.cnt()).unwrap_or(0)
    }
    fn cshape(&self) -> String {
        match self {
            Some(x) => format!("Some({})", x.cshape()),
            None => "None".into(),
        }
    }
}
impl<T: Cnt> Cnt for Vec<T> {
    fn cnt(&self) -> usize {
        self.iter().map(|x| x.cnt()).sum()
    }
    fn cshape(&self) -> String {
        format!("[{}]", self.iter().map(|x| x.cshape()).collect::<Vec<_>>().join(","))
    }
}
macro_rules! cnt_tuple {
    ($($t:ident $i:tt),*) => {
        impl<$($t: Cnt),*> Cnt for ($($t,)*) {
            fn cnt(&self) -> usize { 0 $( + self.$i.cnt() )* }
            fn cshape(&self) -> String { format!("({})", vec![$( self.$i.cshape() ),*].join(",")) }
        }
    };
}
cnt_tuple!(A 0, B 1);
cnt_tuple!(A 0, B 1, C 2);
cnt_tuple!(A 0, B 1, C 2, D 3);
cnt_tuple!(A 0, B 1, C 2, D 3, E 4);
cnt_tuple!(A 0, B 1, C 2, D 3, E 4, F 5);
cnt_tuple!(A 0, B 1, C 2, D 3, E 4, F 5, G 6);
cnt_tuple!(A 0, B 1, C 2, D 3, E 4, F 5, G 6, H 7);

pub fn spans_json(v: &[(usize, usize)]) -> Value {
    Value::Array(v.iter().map(|(a, b)| json!([a, b])).collect())
}
