//! pest2json: read pest grammar files, emit pest_meta's reading of them as JSON.
//!
//! Depends on pest_meta / pest ONLY (never on /repo), so that what the TLA+ model is
//! given is pest's own view of the grammar: source AST, optimized AST, validator verdict
//! and the membership table of built-in character classes over a candidate alphabet.
//!
//! usage: pest2json <spec.json>      (spec: {"grammars":[{"id","path"|"text","cands":[cp..]}...]})
//! output (stdout): {"grammars":[{id,text,valid,errors,rules_src,rules_opt,props}...]}

use pest_meta::ast::{Expr, Rule as AstRule, RuleType};
use pest_meta::optimizer::{optimize, OptimizedExpr, OptimizedRule};
use pest_meta::parser::{self, consume_rules, Rule};
use serde_json::{json, Value};
use std::collections::BTreeSet;

fn cps(s: &str) -> Value {
    Value::Array(s.chars().map(|c| json!(c as u32)).collect())
}

fn ty(t: RuleType) -> &'static str {
    match t {
        RuleType::Normal => "normal",
        RuleType::Silent => "silent",
        RuleType::Atomic => "atomic",
        RuleType::CompoundAtomic => "compound",
        RuleType::NonAtomic => "nonatomic",
    }
}

// Flatten the right spine only, exactly like the `walk!` macro of both generators.
fn src(e: &Expr, idents: &mut BTreeSet<String>) -> Value {
    match e {
        Expr::Str(s) => json!({"t":"str","s":cps(s)}),
        Expr::Insens(s) => json!({"t":"insens","s":cps(s)}),
        Expr::Range(a, b) => {
            json!({"t":"range","lo":a.chars().next().unwrap() as u32,"hi":b.chars().next().unwrap() as u32})
        }
        Expr::Ident(n) => {
            idents.insert(n.clone());
            json!({"t":"call","n":n})
        }
        Expr::PeekSlice(a, b) => {
            json!({"t":"peekslice","a":a,"hasb":b.is_some(),"b":b.unwrap_or(0)})
        }
        Expr::PosPred(e) => json!({"t":"pos","e":src(e, idents)}),
        Expr::NegPred(e) => json!({"t":"neg","e":src(e, idents)}),
        Expr::Seq(_, _) => {
            let mut xs = vec![];
            let mut cur = e;
            while let Expr::Seq(l, r) = cur {
                xs.push(src(l, idents));
                cur = r;
            }
            xs.push(src(cur, idents));
            json!({"t":"seq","xs":xs})
        }
        Expr::Choice(_, _) => {
            let mut xs = vec![];
            let mut cur = e;
            while let Expr::Choice(l, r) = cur {
                xs.push(src(l, idents));
                cur = r;
            }
            xs.push(src(cur, idents));
            json!({"t":"alt","xs":xs})
        }
        Expr::Opt(e) => json!({"t":"opt","e":src(e, idents)}),
        Expr::Rep(e) => json!({"t":"rep","k":"rep","e":src(e, idents),"min":0,"max":-1}),
        Expr::RepOnce(e) => json!({"t":"rep","k":"reponce","e":src(e, idents),"min":1,"max":-1}),
        Expr::RepExact(e, n) => json!({"t":"rep","k":"repexact","e":src(e, idents),"min":n,"max":n}),
        Expr::RepMin(e, n) => json!({"t":"rep","k":"repmin","e":src(e, idents),"min":n,"max":-1}),
        Expr::RepMax(e, m) => json!({"t":"rep","k":"repmax","e":src(e, idents),"min":0,"max":m}),
        Expr::RepMinMax(e, n, m) => json!({"t":"rep","k":"repminmax","e":src(e, idents),"min":n,"max":m}),
        Expr::Skip(v) => json!({"t":"skipuntil","ns":v.iter().map(|s| cps(s)).collect::<Vec<_>>()}),
        Expr::Push(e) => json!({"t":"push","e":src(e, idents)}),
        #[allow(unreachable_patterns)]
        _ => json!({"t":"unsupported"}),
    }
}

fn opt(e: &OptimizedExpr, idents: &mut BTreeSet<String>) -> Value {
    match e {
        OptimizedExpr::Str(s) => json!({"t":"str","s":cps(s)}),
        OptimizedExpr::Insens(s) => json!({"t":"insens","s":cps(s)}),
        OptimizedExpr::Range(a, b) => {
            json!({"t":"range","lo":a.chars().next().unwrap() as u32,"hi":b.chars().next().unwrap() as u32})
        }
        OptimizedExpr::Ident(n) => {
            idents.insert(n.clone());
            json!({"t":"call","n":n})
        }
        OptimizedExpr::PeekSlice(a, b) => {
            json!({"t":"peekslice","a":a,"hasb":b.is_some(),"b":b.unwrap_or(0)})
        }
        OptimizedExpr::PosPred(e) => json!({"t":"pos","e":opt(e, idents)}),
        OptimizedExpr::NegPred(e) => json!({"t":"neg","e":opt(e, idents)}),
        OptimizedExpr::Seq(_, _) => {
            let mut xs = vec![];
            let mut cur = e;
            while let OptimizedExpr::Seq(l, r) = cur {
                xs.push(opt(l, idents));
                cur = r;
            }
            xs.push(opt(cur, idents));
            json!({"t":"seq","xs":xs})
        }
        OptimizedExpr::Choice(_, _) => {
            let mut xs = vec![];
            let mut cur = e;
            while let OptimizedExpr::Choice(l, r) = cur {
                xs.push(opt(l, idents));
                cur = r;
            }
            xs.push(opt(cur, idents));
            json!({"t":"alt","xs":xs})
        }
        OptimizedExpr::Opt(e) => json!({"t":"opt","e":opt(e, idents)}),
        OptimizedExpr::Rep(e) => json!({"t":"rep","k":"rep","e":opt(e, idents),"min":0,"max":-1}),
        OptimizedExpr::Skip(v) => {
            json!({"t":"skipuntil","ns":v.iter().map(|s| cps(s)).collect::<Vec<_>>()})
        }
        OptimizedExpr::Push(e) => json!({"t":"push","e":opt(e, idents)}),
        OptimizedExpr::RestoreOnErr(e) => json!({"t":"restore","e":opt(e, idents)}),
        #[allow(unreachable_patterns)]
        _ => json!({"t":"unsupported"}),
    }
}

fn class(name: &str, c: char) -> Option<bool> {
    Some(match name {
        "ASCII_DIGIT" => c.is_ascii_digit(),
        "ASCII_NONZERO_DIGIT" => ('1'..='9').contains(&c),
        "ASCII_BIN_DIGIT" => c == '0' || c == '1',
        "ASCII_OCT_DIGIT" => ('0'..='7').contains(&c),
        "ASCII_HEX_DIGIT" => c.is_ascii_hexdigit(),
        "ASCII_ALPHA_LOWER" => c.is_ascii_lowercase(),
        "ASCII_ALPHA_UPPER" => c.is_ascii_uppercase(),
        "ASCII_ALPHA" => c.is_ascii_alphabetic(),
        "ASCII_ALPHANUMERIC" => c.is_ascii_alphanumeric(),
        "ASCII" => c.is_ascii(),
        _ => return pest::unicode::by_name(name).map(|f| f(c)),
    })
}

fn one(g: &Value) -> Value {
    let id = g["id"].as_str().unwrap().to_string();
    let text = match g.get("path").and_then(|p| p.as_str()) {
        Some(p) => std::fs::read_to_string(p).unwrap_or_else(|e| panic!("{p}: {e}")),
        None => g["text"].as_str().unwrap().to_string(),
    };
    let cands: Vec<char> = g["cands"]
        .as_array()
        .map(|a| a.iter().filter_map(|v| char::from_u32(v.as_u64().unwrap() as u32)).collect())
        .unwrap_or_default();
    let pairs = match parser::parse(Rule::grammar_rules, &text) {
        Ok(p) => p,
        Err(e) => {
            return json!({"id":id,"text":text,"valid":false,"syntax_error":true,"errors":[format!("{e}")],
                          "rules_src":[],"rules_opt":[],"props":{},"pairs_errors":[]})
        }
    };
    // validate_pairs (undefined / duplicate / keyword names) is what pest_derive runs in addition;
    // pest-typed does not. Reported separately.
    let pairs_errors: Vec<String> = match pest_meta::validator::validate_pairs(pairs.clone()) {
        Ok(_) => vec![],
        Err(es) => es.iter().map(|e| format!("{}", e.variant.message())).collect(),
    };
    let ast: Vec<AstRule> = match consume_rules(pairs) {
        Ok(a) => a,
        Err(es) => {
            let errors: Vec<String> = es.iter().map(|e| format!("{}", e.variant.message())).collect();
            return json!({"id":id,"text":text,"valid":false,"syntax_error":false,"errors":errors,
                          "rules_src":[],"rules_opt":[],"props":{},"pairs_errors":pairs_errors});
        }
    };
    let mut idents = BTreeSet::new();
    let rules_src: Vec<Value> = ast
        .iter()
        .map(|r| json!({"name":r.name,"ty":ty(r.ty),"expr":src(&r.expr, &mut idents)}))
        .collect();
    let optimized: Vec<OptimizedRule> = optimize(ast.clone());
    let rules_opt: Vec<Value> = optimized
        .iter()
        .map(|r| json!({"name":r.name,"ty":ty(r.ty),"expr":opt(&r.expr, &mut idents)}))
        .collect();
    let defined: BTreeSet<&str> = ast.iter().map(|r| r.name.as_str()).collect();
    let mut props = serde_json::Map::new();
    for n in idents.iter() {
        if defined.contains(n.as_str()) {
            continue;
        }
        if class(n, 'a').is_some() {
            let members: Vec<Value> = cands
                .iter()
                .filter(|c| class(n, **c).unwrap())
                .map(|c| json!(*c as u32))
                .collect();
            props.insert(n.clone(), Value::Array(members));
        }
    }
    json!({"id":id,"text":text,"valid":true,"syntax_error":false,"errors":[],"pairs_errors":pairs_errors,
           "rules_src":rules_src,"rules_opt":rules_opt,"props":props})
}

fn main() {
    let path = std::env::args().nth(1).expect("usage: pest2json <spec.json>");
    let spec: Value = serde_json::from_str(&std::fs::read_to_string(&path).unwrap()).unwrap();
    let prev = std::panic::take_hook();
    std::panic::set_hook(Box::new(|_| {}));
    let out: Vec<Value> = spec["grammars"]
        .as_array()
        .unwrap()
        .iter()
        .map(|g| {
            let g2 = g.clone();
            match std::panic::catch_unwind(move || one(&g2)) {
                Ok(v) => v,
                Err(_) => json!({"id":g["id"],"valid":false,"panicked":true,"errors":["pest_meta panicked"],
                                 "rules_src":[],"rules_opt":[],"props":{},"pairs_errors":[]}),
            }
        })
        .collect();
    std::panic::set_hook(prev);
    println!("{}", serde_json::to_string(&json!({"grammars":out})).unwrap());
}
