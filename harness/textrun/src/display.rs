//! Display of Span / Position: run to_string() under catch_unwind and parse the snippet into
//! (numbered lines, marker rows) so that the layout can be compared with spec/TextDisplay.tla.
use serde_json::{json, Value};
use std::panic::{catch_unwind, AssertUnwindSafe};
use unicode_width::UnicodeWidthStr;

fn parse(out: &str) -> Value {
    let mut nums = vec![];
    let mut marks = vec![];
    let mut dots = false;
    let mut other = vec![];
    for line in out.split('\n') {
        if line.is_empty() {
            continue;
        }
        // "<prefix> |" or "<prefix> | <content>"
        let (prefix, content) = match line.find(" |") {
            Some(i) => {
                let rest = &line[i + 2..];
                (&line[..i], rest.strip_prefix(' ').unwrap_or(rest))
            }
            None => {
                other.push(json!(line));
                continue;
            }
        };
        let p = prefix.trim();
        if p.is_empty() {
            if content == "..." {
                dots = true;
            } else if content.is_empty() && !line.ends_with(' ') {
                // blank separator row
            } else {
                let lead = content.len() - content.trim_start_matches(' ').len();
                let m = &content[lead..];
                let ch = m.chars().next().map(|c| c.to_string()).unwrap_or_default();
                marks.push(json!([ch, lead, m.chars().count()]));
                if !m.chars().all(|c| c == '^' || c == 'v') {
                    other.push(json!(line));
                }
            }
        } else if let Ok(n) = p.parse::<usize>() {
            nums.push(json!([n, content]));
        } else {
            other.push(json!(line));
        }
    }
    json!({"nums": nums, "marks": marks, "dots": dots, "other": other})
}

/// The same value formatted with a custom FormatOption that brackets whatever each of the three formatters is given
/// (private-use characters): with the brackets removed the text must be the default rendering; the bracketed pieces are
/// returned by kind so that the checker can compare them with the layout of the specification.
fn custom(default: &str, run: impl FnOnce(&mut String) -> std::fmt::Result) -> Value {
    let mut out = String::new();
    let r = catch_unwind(AssertUnwindSafe(|| run(&mut out).is_ok()));
    match r {
        Ok(true) => {
            let mut pieces: [Vec<String>; 3] = [vec![], vec![], vec![]];
            let mut cur: Option<(usize, String)> = None;
            let mut stripped = String::new();
            let mut nested = false;
            for c in out.chars() {
                let k = c as u32;
                if (0xE000..=0xE005).contains(&k) {
                    let idx = ((k - 0xE000) / 2) as usize;
                    if (k - 0xE000) % 2 == 0 {
                        nested |= cur.is_some();
                        cur = Some((idx, String::new()));
                    } else {
                        match cur.take() {
                            Some((i, t)) if i == idx => pieces[i].push(t),
                            _ => nested = true,
                        }
                    }
                } else {
                    stripped.push(c);
                    if let Some((_, t)) = cur.as_mut() {
                        t.push(c);
                    }
                }
            }
            json!({"eq": stripped == default, "s": pieces[0], "m": pieces[1], "n": pieces[2], "nested": nested || cur.is_some()})
        }
        Ok(false) => json!({"fmt_error": true}),
        Err(_) => json!({"panic": true}),
    }
}

macro_rules! bracket_opt {
    () => {
        pest_typed::VerifFormatOption::new(
            |s: &str, f: &mut String| { f.push('\u{E000}'); f.push_str(s); f.push('\u{E001}'); Ok(()) },
            |s: &str, f: &mut String| { f.push('\u{E002}'); f.push_str(s); f.push('\u{E003}'); Ok(()) },
            |s: &str, f: &mut String| { f.push('\u{E004}'); f.push_str(s); f.push('\u{E005}'); Ok(()) },
        )
    };
}

pub fn disp_mode(s: &str) -> Value {
    let n = s.len();
    let mut spans = vec![];
    for a in 0..=n {
        for b in a..=n {
            if let Some(sp) = pest_typed::Span::new(s, a, b) {
                let r = catch_unwind(AssertUnwindSafe(|| sp.to_string()));
                spans.push(match r {
                    Ok(out) => {
                        let mut v = parse(&out);
                        v["a"] = json!(a);
                        v["b"] = json!(b);
                        v["custom"] = custom(&out, |f| sp.display(f, bracket_opt!()));
                        v
                    }
                    Err(_) => json!({"a": a, "b": b, "panic": true}),
                });
            }
        }
    }
    let mut poss = vec![];
    for p in 0..=n {
        if let Some(pos) = pest_typed::Position::new(s, p) {
            let r = catch_unwind(AssertUnwindSafe(|| pos.to_string()));
            poss.push(match r {
                Ok(out) => {
                    let mut v = parse(&out);
                    v["p"] = json!(p);
                    v["custom"] = custom(&out, |f| pos.display(f, bracket_opt!()));
                    v
                }
                Err(_) => json!({"p": p, "panic": true}),
            });
        }
    }
    let widths: Vec<Value> = ["a", "é", "中", "␊", "␍", "␉"].iter().map(|c| json!(UnicodeWidthStr::width_cjk(*c))).collect();
    json!({"spans": spans, "poss": poss, "widths": widths})
}
