//! Display of Span / Position: run to_string() under catch_unwind and parse the snippet into
//! (numbered lines, marker rows) so that the layout can be compared with spec/TextDisplay.tla.
use serde_json::{json, Value};
use std::panic::{catch_unwind, AssertUnwindSafe};
use unicode_width::UnicodeWidthStr;

fn parse(out: &str) -> Value {
    let mut nums = vec![];
    let mut marks = vec![];
    let mut dots = false;
    let mut other = vec![];
    for line in out.split('\n') {
        if line.is_empty() {
            continue;
        }
        // "<prefix> |" or "<prefix> | <content>"
        let (prefix, content) = match line.find(" |") {
            Some(i) => {
                let rest = &line[i + 2..];
                (&line[..i], rest.strip_prefix(' ').unwrap_or(rest))
            }
            None => {
                other.push(json!(line));
                continue;
            }
        };
        let p = prefix.trim();
        if p.is_empty() {
            if content == "..." {
                dots = true;
            } else if content.is_empty() && !line.ends_with(' ') {
                // blank separator row
            } else {
                let lead = content.len() - content.trim_start_matches(' ').len();
                let m = &content[lead..];
                let ch = m.chars().next().map(|c| c.to_string()).unwrap_or_default();
                marks.push(json!([ch, lead, m.chars().count()]));
                if !m.chars().all(|c| c == '^' || c == 'v') {
                    other.push(json!(line));
                }
            }
        } else if let Ok(n) = p.parse::<usize>() {
            nums.push(json!([n, content]));
        } else {
            other.push(json!(line));
        }
    }
    json!({"nums": nums, "marks": marks, "dots": dots, "other": other})
}

pub fn disp_mode(s: &str) -> Value {
    let n = s.len();
    let mut spans = vec![];
    for a in 0..=n {
        for b in a..=n {
            if let Some(sp) = pest_typed::Span::new(s, a, b) {
                let r = catch_unwind(AssertUnwindSafe(|| sp.to_string()));
                spans.push(match r {
                    Ok(out) => {
                        let mut v = parse(&out);
                        v["a"] = json!(a);
                        v["b"] = json!(b);
                        v
                    }
                    Err(_) => json!({"a": a, "b": b, "panic": true}),
                });
            }
        }
    }
    let mut poss = vec![];
    for p in 0..=n {
        if let Some(pos) = pest_typed::Position::new(s, p) {
            let r = catch_unwind(AssertUnwindSafe(|| pos.to_string()));
            poss.push(match r {
                Ok(out) => {
                    let mut v = parse(&out);
                    v["p"] = json!(p);
                    v
                }
                Err(_) => json!({"p": p, "panic": true}),
            });
        }
    }
    let widths: Vec<Value> = ["a", "é", "中", "␊", "␍", "␉"].iter().map(|c| json!(UnicodeWidthStr::width_cjk(*c))).collect();
    json!({"spans": spans, "poss": poss, "widths": widths})
}
