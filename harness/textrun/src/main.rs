//! Runs the text API of pest-typed (Position / Span / Display) on strings that come from TLC,
//! and prints records in the same shape the specification prints (plus pest as witness of the spec).
use serde_json::{json, Value};
use std::io::{BufRead, Write};
use std::panic::{catch_unwind, AssertUnwindSafe};

fn to_string(v: &Value) -> String {
    v.as_array().unwrap().iter().map(|c| char::from_u32(c.as_u64().unwrap() as u32).unwrap()).collect()
}

fn off(input: &str, sub: &str) -> usize {
    sub.as_ptr() as usize - input.as_ptr() as usize
}

fn pos_mode(s: &str) -> Value {
    let mut at = vec![];
    let mut p_at = vec![];
    let mut bad = vec![];
    for o in 0..=s.len() + 1 {
        let tp = pest_typed::Position::new(s, o);
        let pp = pest::Position::new(s, o);
        let boundary = o <= s.len() && s.is_char_boundary(o);
        if tp.is_some() != boundary {
            bad.push(json!([o, tp.is_some()]));
        }
        if let Some(p) = tp {
            if boundary {
                let r = catch_unwind(AssertUnwindSafe(|| {
                    let (l, c) = p.line_col();
                    let line = p.line_of();
                    let ls = off(s, line);
                    json!([o, l, c, ls, ls + line.len()])
                }));
                at.push(r.unwrap_or(json!([o, "PANIC"])));
            }
        }
        if let Some(p) = pp {
            let (l, c) = p.line_col();
            let line = p.line_of();
            let ls = off(s, line);
            p_at.push(json!([o, l, c, ls, ls + line.len()]));
        }
    }
    json!({"at": at, "p_at": p_at, "bad": bad})
}

fn span_mode(s: &str, table: bool) -> Value {
    let n = s.len();
    let mut spans = vec![];
    let mut p_spans = vec![];
    let mut lines = vec![];
    let mut p_lines = vec![];
    let mut valid: Vec<pest_typed::Span> = vec![];
    let mut misc = vec![];
    for a in 0..=n + 1 {
        for b in 0..=n + 1 {
            if let Some(sp) = pest_typed::Span::new(s, a, b) {
                spans.push(json!([a, b]));
                let ls: Vec<Value> = sp.lines_span().map(|l| json!([l.start(), l.end()])).collect();
                let ls2: Vec<Value> = sp.lines().map(|l| json!([off(s, l), off(s, l) + l.len()])).collect();
                if ls != ls2 {
                    misc.push(json!({"lines_vs_lines_span": [a, b]}));
                }
                lines.push(Value::Array(ls));
                let (p, q) = sp.split();
                if sp.start() != a || sp.end() != b || p.pos() != a || q.pos() != b || sp.as_str() != &s[a..b]
                    || sp.start_pos().pos() != a || sp.end_pos().pos() != b || sp.get_input() != s {
                    misc.push(json!({"accessors": [a, b]}));
                }
                valid.push(sp);
            }
            if let Some(sp) = pest::Span::new(s, a, b) {
                p_spans.push(json!([a, b]));
                p_lines.push(Value::Array(sp.lines_span().map(|l| json!([l.start(), l.end()])).collect()));
            }
        }
    }
    let mut out = json!({"spans": spans, "lines": lines, "p_spans": p_spans, "p_lines": p_lines, "misc": misc});
    if table {
        let mut get = vec![];
        let mut p_get_same = true;
        for sp in &valid {
            let psp = pest::Span::new(s, sp.start(), sp.end()).unwrap();
            let len = sp.end() - sp.start();
            let mut acc = vec![];
            for x in 0..=len + 2 {
                for y in 0..=len + 2 {
                    let r = sp.get(x..y);
                    let exp = r.map(|r| (r.start() - sp.start(), r.end() - sp.start()));
                    if let Some((rx, ry)) = exp {
                        if rx != x || ry != y {
                            misc_push(&mut out, json!({"get_value": [sp.start(), sp.end(), x, y]}));
                        }
                        if x <= y {
                            acc.push(json!([x, y]));
                        } else {
                            misc_push(&mut out, json!({"get_inverted": [sp.start(), sp.end(), x, y]}));
                        }
                    }
                    // the other range forms must agree with the half-open one
                    let incl = if y >= 1 { sp.get(x..=y - 1).map(|r| (r.start(), r.end())) } else { None };
                    let r2 = r.map(|r| (r.start(), r.end()));
                    if y >= 1 && incl != r2 {
                        misc_push(&mut out, json!({"get_inclusive": [sp.start(), sp.end(), x, y]}));
                    }
                    if y == len && sp.get(x..).map(|r| (r.start(), r.end())) != r2 {
                        misc_push(&mut out, json!({"get_from": [sp.start(), sp.end(), x]}));
                    }
                    if x == 0 && sp.get(..y).map(|r| (r.start(), r.end())) != r2 {
                        misc_push(&mut out, json!({"get_to": [sp.start(), sp.end(), y]}));
                    }
                    if x == 0 && y >= 1 && sp.get(..=y - 1).map(|r| (r.start(), r.end())) != r2 {
                        misc_push(&mut out, json!({"get_to_incl": [sp.start(), sp.end(), y]}));
                    }
                    if psp.get(x..y).map(|r| (r.start(), r.end())) != r2 {
                        p_get_same = false;
                    }
                }
            }
            if sp.get(..).map(|r| (r.start(), r.end())) != Some((sp.start(), sp.end())) {
                misc_push(&mut out, json!({"get_full": [sp.start(), sp.end()]}));
            }
            get.push(Value::Array(acc));
        }
        let mut merge = vec![];
        let mut p_merge_same = true;
        for p in &valid {
            let mut row = vec![];
            for q in &valid {
                let m = pest_typed::merge_spans(p, q);
                row.push(match m {
                    Some(m) => json!([m.start(), m.end()]),
                    None => json!([]),
                });
                let pp = pest::Span::new(s, p.start(), p.end()).unwrap();
                let pq = pest::Span::new(s, q.start(), q.end()).unwrap();
                let pm = pest::merge_spans(&pp, &pq).map(|m| (m.start(), m.end()));
                if pm != m.map(|m| (m.start(), m.end())) {
                    p_merge_same = false;
                }
            }
            merge.push(Value::Array(row));
        }
        out["get"] = Value::Array(get);
        out["merge"] = Value::Array(merge);
        out["p_get_same"] = json!(p_get_same);
        out["p_merge_same"] = json!(p_merge_same);
    }
    out
}

/// Replay a sequence of abstract stack operations (PegStack.tla) on the real mechanism of the runtime:
/// snapshot .. clear / restore = one call of restore_on_none whose closure returns Some / None.
fn stack_mode(ops: &Value) -> Value {
    use pest_typed::predefined_node::restore_on_none;
    use pest_typed::{Span, Stack};
    static INPUT: &str = "ab";
    let ops: Vec<(String, u64)> = ops.as_array().unwrap().iter().map(|o| (o[0].as_str().unwrap().to_string(), o[1].as_u64().unwrap_or(0))).collect();
    // returns (next index, how the enclosing attempt ended: 1 = clear (Some), 0 = restore (None), 2 = sequence ended inside)
    fn run<'i>(ops: &[(String, u64)], mut i: usize, stack: &mut Stack<Span<'i>>, input: &'i str) -> (usize, u8) {
        while i < ops.len() {
            match ops[i].0.as_str() {
                "push" => {
                    let v = ops[i].1 as usize;
                    stack.push(Span::new(input, v - 1, v).unwrap());
                    i += 1;
                }
                "pop" => {
                    stack.pop();
                    i += 1;
                }
                "snap" => {
                    let mut next = i + 1;
                    let mut end = 2u8;
                    let _ = restore_on_none(stack, |stack| {
                        let (j, how) = run(ops, i + 1, stack, input);
                        next = j;
                        end = how;
                        if how == 0 { None } else { Some(()) }
                    });
                    i = next;
                    if end == 2 {
                        return (i, 2);
                    }
                }
                "clear" => return (i + 1, 1),
                "restore" => return (i + 1, 0),
                _ => i += 1,
            }
        }
        (i, 2)
    }
    let mut stack: Stack<Span<'static>> = Stack::new();
    let _ = run(&ops, 0, &mut stack, INPUT);
    let content: Vec<Value> = stack[0..stack.len()].iter().map(|s| json!(s.start() + 1)).collect();
    json!({"content": content})
}

fn misc_push(out: &mut Value, v: Value) {
    out["misc"].as_array_mut().unwrap().push(v);
}

fn main() {
    std::panic::set_hook(Box::new(|_| {}));
    let stdin = std::io::stdin();
    let out = std::io::stdout();
    let mut o = out.lock();
    for line in stdin.lock().lines() {
        let line = line.unwrap();
        if line.trim().is_empty() {
            continue;
        }
        let v: Value = serde_json::from_str(&line).unwrap();
        let s = to_string(&v["s"]);
        let mode = v["mode"].as_str().unwrap_or("pos");
        let res = catch_unwind(AssertUnwindSafe(|| match mode {
            "pos" => pos_mode(&s),
            "span" => span_mode(&s, v["table"].as_bool().unwrap_or(false)),
            "disp" => display::disp_mode(&s),
            "stack" => stack_mode(&v["ops"]),
            _ => json!({"unknown": true}),
        }))
        .unwrap_or(json!({"panic": true}));
        let _ = writeln!(o, "{}", json!({"idx": v["idx"], "obs": res}));
    }
}

mod display;
