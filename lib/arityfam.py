"""Family `arity` (C17): choices and sequences of arity 2..16, repetitions and every leaf kind, together with generated Rust
code that calls the accessors (_k(), if_then/else_if/else_then, reference(), match_choices!, get_matched / as_ref / get_all /
into_matched, iter_matched / into_iter_matched / iter_all, leaf fields) and prints what they return."""
from vcommon import *

ALTS = ['"ab"', '"a"', '"b"', '"ba"', '"c"', '"ca"', '"abc"', '"bc"', '"cb"', '"aa"', '"bb"', '"cc"', '"ac"', '"bca"', '"cab"', '"a"']
WSN = 'WHITESPACE = { " " }'


def choice_rule(n):
    return " | ".join(ALTS[:n])


def choice_code(name, n):
    somes = ", ".join("c._%d().is_some()" % i for i in range(n))
    chain = "c.if_then(|_| 0usize)" + "".join(".else_if(|_| %dusize)" % i for i in range(1, n - 1)) + ".else_then(|_| %dusize)" % (n - 1)
    refc = "c.reference::<usize>()" + "".join(".else_if(|_| %dusize)" % i for i in range(0, n - 1)) + ".else_then(|_| %dusize)" % (n - 1)
    cons = "c.clone().consume::<usize>()" + "".join(".else_if(|_| %dusize)" % i for i in range(0, n - 1)) + ".else_then(|_| %dusize)" % (n - 1)
    arms = ", ".join("_a%d => %dusize" % (i, i) for i in range(n))
    return """
pub fn custom_%(name)s(job: &hcommon::Job) -> serde_json::Value {
    use pest_typed::{ParsableTypedNode, RuleStruct};
    use t::generics;
    match t::rules::r#%(name)s::try_parse_partial(pest_typed::Span::new(job.full.as_str(), job.lo, job.hi).unwrap()) {
        Ok((_, node)) => {
            let c = node.ref_inner();
            let somes: Vec<bool> = vec![%(somes)s];
            let chain = %(chain)s;
            let refc = %(refc)s;
            let cons = %(cons)s;
            let mc = pest_typed_derive::match_choices!(c { %(arms)s });
            serde_json::json!({"somes": somes, "if_then": chain, "reference": refc, "consume": cons, "match_choices": mc})
        }
        Err(_) => serde_json::json!({"fail": true}),
    }
}
""" % dict(name=name, somes=somes, chain=chain, refc=refc, cons=cons, arms=arms)


def seq_rule(n):
    return " ~ ".join(["'a'..'c'"] * n)


def seq_code(name, n):
    idx = range(n)
    gm = ", ".join("m.%d.content.to_string()" % i for i in idx)
    ar = ", ".join("r.%d.content.to_string()" % i for i in idx)
    im = ", ".join("im.%d.content.to_string()" % i for i in idx)
    ga = ", ".join("serde_json::json!([skp(&|| raw(&a.%d.skipped)), a.%d.matched.content.to_string()])" % (i, i) for i in idx)
    a2 = ", ".join("&a2.%d" % i for i in idx)
    return """
pub fn custom_%(name)s(job: &hcommon::Job) -> serde_json::Value {
    use pest_typed::{ParsableTypedNode, RuleStruct, Spanned};
    let lo = job.lo;
    let skp = |x: &dyn Fn() -> Vec<(usize, usize)>| -> Vec<(usize, usize)> { x().into_iter().map(|(a, b)| (a - lo, b - lo)).collect() };
    fn raw<'i, T: pest_typed::iterators::Pairs<'i, t::Rule>>(x: &T) -> Vec<(usize, usize)> {
        x.self_or_children().iter().map(|t| (t.span.start(), t.span.end())).collect()
    }
    match t::rules::r#%(name)s::try_parse_partial(pest_typed::Span::new(job.full.as_str(), job.lo, job.hi).unwrap()) {
        Ok((_, node)) => {
            let c = node.ref_inner();
            let m = c.get_matched();
            let r = c.as_ref();
            let a = c.get_all();
            let im = c.clone().into_matched();
            let a2 = c.clone().into_all();
            let a = (%(a2)s);
            let ia: serde_json::Value = serde_json::json!([%(ga)s]);
            let a = c.get_all();
            serde_json::json!({"get_matched": [%(gm)s], "as_ref": [%(ar)s], "into_matched": [%(im)s], "get_all": [%(ga)s], "into_all": ia})
        }
        Err(_) => serde_json::json!({"fail": true}),
    }
}
""" % dict(name=name, gm=gm, ar=ar, im=im, ga=ga, a2=a2)


def rep_code(name, path):
    return """
pub fn custom_%(name)s(job: &hcommon::Job) -> serde_json::Value {
    use pest_typed::{ParsableTypedNode, RuleStruct, Spanned};
    let lo = job.lo;
    let skp = |x: &dyn Fn() -> Vec<(usize, usize)>| -> Vec<(usize, usize)> { x().into_iter().map(|(a, b)| (a - lo, b - lo)).collect() };
    fn raw<'i, T: pest_typed::iterators::Pairs<'i, t::Rule>>(x: &T) -> Vec<(usize, usize)> {
        x.self_or_children().iter().map(|t| (t.span.start(), t.span.end())).collect()
    }
    match t::rules::r#%(name)s::try_parse_partial(pest_typed::Span::new(job.full.as_str(), job.lo, job.hi).unwrap()) {
        Ok((_, node)) => {
            let c = node.ref_inner()%(path)s;
            let im: Vec<String> = c.iter_matched().map(|x| x.content.to_string()).collect();
            let all: Vec<serde_json::Value> = c.iter_all().map(|x| serde_json::json!([skp(&|| raw(&x.skipped)), x.matched.content.to_string()])).collect();
            let into: Vec<String> = c.clone().into_iter_matched().map(|x| x.content.to_string()).collect();
            let into_all: Vec<String> = c.clone().into_iter_all().map(|x| x.matched.content.to_string()).collect();
            serde_json::json!({"iter_matched": im, "iter_all": all, "into_iter_matched": into, "into_iter_all": into_all, "len": c.content.len()})
        }
        Err(_) => serde_json::json!({"fail": true}),
    }
}
""" % dict(name=name, path=path)


def leaf_code(name, expr):
    return """
pub fn custom_%(name)s(job: &hcommon::Job) -> serde_json::Value {
    use pest_typed::{ParsableTypedNode, RuleStruct, Spanned};
    match t::rules::r#%(name)s::try_parse_partial(pest_typed::Span::new(job.full.as_str(), job.lo, job.hi).unwrap()) {
        Ok((_, node)) => {
            let c = node.ref_inner();
            let _ = c;
            serde_json::json!({"leaf": %(expr)s})
        }
        Err(_) => serde_json::json!({"fail": true}),
    }
}
""" % dict(name=name, expr=expr)


def span_leaf_code(name):
    """an atomic rule whose whole body is one skip-until node: the rule's span is the text that node consumed"""
    return """
pub fn custom_%(name)s(job: &hcommon::Job) -> serde_json::Value {
    use pest_typed::{ParsableTypedNode, RuleStruct, Spanned};
    match t::rules::r#%(name)s::try_parse_partial(pest_typed::Span::new(job.full.as_str(), job.lo, job.hi).unwrap()) {
        Ok((_, node)) => serde_json::json!({"leaf": node.span().as_str().to_string()}),
        Err(_) => serde_json::json!({"fail": true}),
    }
}
""" % dict(name=name)


def fam_arity(tier):
    out = []
    # choices: one grammar per group of arities (>= 13 uses the on-demand choices! expansion)
    groups = [[2, 3, 4, 5, 6, 7], [8, 9, 10, 11, 12], [13, 14, 15, 16]]
    for gi, grp in enumerate(groups):
        lines, custom, extra, exp = [], {}, "", {}
        for n in grp:
            nm = "ch%d" % n
            lines.append("%s = { %s }" % (nm, choice_rule(n)))
            custom[nm] = "custom_" + nm
            extra += choice_code(nm, n)
            exp[nm] = ("choice", n)
        out.append(dict(id="arc%d" % gi, text="\n".join(lines), alphabet=cps("abc"), maxlen=3, custom=custom, extra=extra, expect=exp,
                        ctxs=[[cps(a), cps(b)] for a, b in [["", ""], ["", "c"], ["", "bc"], ["a", "b"]]]))
    for gi, grp in enumerate(groups):
        lines, custom, extra, exp = [WSN], {}, "", {}
        for n in grp:
            nm = "sq%d" % n
            lines.append("%s = { %s }" % (nm, seq_rule(n)))
            custom[nm] = "custom_" + nm
            extra += seq_code(nm, n)
            exp[nm] = ("seq", n)
        import random
        rnd = random.Random(gi)
        ins = set()
        for n in grp:
            for _ in range(6 if tier == "quick" else 30):
                s = ""
                for k in range(n):
                    s += rnd.choice("abc") + rnd.choice(["", "", " ", "  "])
                ins.add(s)
                ins.add(s.strip())
                ins.add(s[:-2])
        out.append(dict(id="ars%d" % gi, text="\n".join(lines), alphabet=cps("ab "), maxlen=2, inputs=[cps(s) for s in sorted(ins)], custom=custom, extra=extra, expect=exp,
                        entries=["sq%d" % n for n in grp], ctxs=[[cps(a), cps(b)] for a, b in [["", ""], ["", " a"], ["b", "c"]]]))
    # repetitions and leaves
    lines = [WSN, "rp0 = { ('a'..'c')* }", "rp1 = ${ ('a'..'c')* }", "rp2 = { \"x\" ~ ('a'..'c')* }",
             "lf0 = { 'a'..'\\u{ff}' }", "lf1 = { ANY }", "lf2 = { ^\"aB\" }", "lf3 = { NEWLINE }", "lf4 = { LETTER }", "lf5 = { PUSH(ANY) ~ PEEK }",
             "lf6 = { PUSH(ANY) ~ \"-\" ~ POP }", "lf7 = { ASCII_DIGIT }", "lf8 = { PUSH(\"a\") ~ PUSH(ANY) ~ PEEK_ALL }", "lf9 = { PUSH(\"a\") ~ PUSH(ANY) ~ \"-\" ~ POP_ALL }",
             "lf10 = { UPPERCASE_LETTER }", "lf11 = { '\\u{80}'..'\\u{10ffff}' }",
             # skip-until nodes (pest's optimizer builds them in atomic rules): terminators that contain, prefix or repeat one another
             'lf12 = @{ (!("Ba" | "a") ~ ANY)* }', 'lf13 = @{ (!("\\r\\n" | "\\n") ~ ANY)* }', 'lf14 = @{ (!("aB" | "a" | "-a" | "a") ~ ANY)* }']
    custom = {"rp0": "custom_rp0", "rp1": "custom_rp1", "rp2": "custom_rp2"}
    extra = rep_code("rp0", "") + rep_code("rp1", "") + rep_code("rp2", ".get_matched().1")
    leaf_expr = {"lf0": "c.content.to_string()", "lf1": "c.content.to_string()", "lf2": "c.content.to_string()", "lf3": 'format!("{:?}", c.content)',
                 "lf4": "c.content.to_string()", "lf5": "c.get_matched().1.span.as_str().to_string()", "lf6": "c.get_matched().2.span.as_str().to_string()",
                 "lf7": "c.content.to_string()", "lf8": "c.get_matched().2.span.as_str().to_string()", "lf9": "c.get_matched().3.span.as_str().to_string()",
                 "lf10": "c.content.to_string()", "lf11": "c.content.to_string()"}
    exp = {"rp0": ("rep", 0), "rp1": ("rep", 0), "rp2": ("rep", 0)}
    for k, e in leaf_expr.items():
        custom[k] = "custom_" + k
        extra += leaf_code(k, e)
        exp[k] = ("leaf", k)
    for k in ("lf12", "lf13", "lf14"):
        custom[k] = "custom_" + k
        extra += span_leaf_code(k)
        exp[k] = ("leaf", k)
    out.append(dict(id="arl0", text="\n".join(lines), alphabet=[97, 66, 233, 20013, 128512, 10, 13, 45, 120, 32, 49] if tier != "quick" else [97, 66, 233, 128512, 10, 13, 45, 32],
                    maxlen=2 if tier == "quick" else 3,
                    inputs=[cps(s) for s in ["xa b  c", "xabc", "x a", "a b c", "ab", "Ab", "AB", "aB", "\r\n", "é-é", "ÿ", "中中", "a中-中a", "a1-1a", "1", "É", "abcabc", "a  b", "xBa", "BBa-", "x\r\n", "\rx\r\n", "é-a", "BaB", "-aB", "éBa", "\r\r\n"]],
                    custom=custom, extra=extra, expect=exp, ctxs=[[cps(a), cps(b)] for a, b in [["", ""], ["", "\n"], ["", "b"], ["é", "é"], ["a", "a"]]]))
    return out


def fam_arity_raw(tier):
    """counted repetitions and e+ compiled with pest_optimizer = false: RepeatMinMax / RepeatMin<_, 1> nodes and their iterators
    (the optimizer unrolls them otherwise); the model runs on the source AST"""
    lines = [WSN, "rq0 = { ('a'..'c'){1,3} }", "rq1 = { ('a'..'c'){2} }", "rq2 = ${ ('a'..'c'){,2} }", "rq3 = { ('a'..'c')+ }", "rq4 = { \"x\" ~ ('a'..'c'){2,4} }",
             "rq5 = { ('a'..'c'){2,} }"]
    names = ["rq0", "rq1", "rq2", "rq3", "rq4", "rq5"]
    custom = {n: "custom_" + n for n in names}
    extra = "".join(rep_code(n, ".get_matched().1" if n == "rq4" else "") for n in names)
    exp = {n: ("rep", 0) for n in names}
    g = dict(id="arr0", text="\n".join(lines), alphabet=cps("ab "), maxlen=3 if tier == "quick" else 4, opts={"pest_optimizer": False},
             inputs=[cps(s) for s in ["a b c", "a  b c", "ab c", "a bc", "a b c a", "xa b c", "x a b  c a", "xab", "a b", "abca", "a b c ", "x a"]],
             custom=custom, extra=extra, expect=exp, entries=names, ctxs=[[cps(a), cps(b)] for a, b in [["", ""], ["", " a"], ["b", "c"]]])
    return [g]
