"""Generate a harness crate (typed derive + pest_derive twin per grammar, dispatch table) for a family."""
import os, json, re, hashlib
from vcommon import *


def raw(s):
    n = 1
    while '"' + '#' * n in s:
        n += 1
    h = '#' * n
    return 'r%s"%s"%s' % (h, s, h)


def opts_attrs(opts):
    return "".join("    #[%s = %s]\n" % (k, "true" if v else "false") for k, v in sorted((opts or {}).items()))


def write_if_changed(path, text):
    try:
        if open(path).read() == text:
            return
    except OSError:
        pass
    os.makedirs(os.path.dirname(path), exist_ok=True)
    open(path, "w").write(text)


def gen_family_one(name, grammars, with_pest=True, extra_main="", extra_mods=None):
    """grammars: list of dict(id, text, rules:[names], opts:{}, nopest:bool, extra: rust code appended to the module)"""
    d = os.path.join(HARNESS, "fam", name)
    os.makedirs(os.path.join(d, "src"), exist_ok=True)
    deps = ['hcommon = { path = "../../hcommon" }', 'pest_typed = { path = "/repo/main" }',
            'pest_typed_derive = { path = "/repo/derive" }', 'pest = "=2.7.14"', 'pest_derive = "=2.7.14"',
            'serde_json = "1"']
    write_if_changed(os.path.join(d, "Cargo.toml"),
                     '[package]\nname = "fam_%s"\nversion = "0.0.0"\nedition = "2021"\n\n[dependencies]\n%s\n' % (name, "\n".join(deps)))
    mods = []
    arms = []
    keep = set()
    for g in grammars:
        gid = g["id"]
        keep.add(gid + ".rs")
        src = "#![allow(non_camel_case_types, dead_code, unused_imports, non_snake_case, clippy::all)]\n"
        src += "pub mod t {\n    #[derive(pest_typed_derive::TypedParser)]\n    #[grammar_inline = %s]\n%s    pub struct P;\n}\n" % (
            raw(g["text"]), opts_attrs(g.get("opts")))
        pest = with_pest and not g.get("nopest")
        if pest:
            src += "pub mod p {\n    #[derive(pest_derive::Parser)]\n    #[grammar_inline = %s]\n    pub struct P;\n}\n" % raw(g["text"])
        src += g.get("extra", "")
        write_if_changed(os.path.join(d, "src", gid + ".rs"), src)
        mods.append("mod %s;" % gid)
        for r in g["rules"]:
            if r in g.get("custom", {}):
                base = "obs!" if pest else "obs_t!"
                arms.append('        ("%s", "%s") => { let mut v = %s(%s, r#%s, job); if job.has(\'X\') { v["x"] = %s::%s(job); } v }' % (gid, r, base, gid, r, gid, g["custom"][r]))
            elif r in g.get("tree_rules", []):
                arms.append('        ("%s", "%s") => obs_tree!(%s, r#%s, job),' % (gid, r, gid, r))
            elif r in g.get("pair_rules", []):
                arms.append('        ("%s", "%s") => obs_pair!(%s, r#%s, job),' % (gid, r, gid, r))
            elif pest:
                arms.append('        ("%s", "%s") => obs!(%s, r#%s, job),' % (gid, r, gid, r))
            else:
                arms.append('        ("%s", "%s") => obs_t!(%s, r#%s, job),' % (gid, r, gid, r))
        for a in g.get("arms", []):
            arms.append(a)
    for f in os.listdir(os.path.join(d, "src")):
        if f.endswith(".rs") and f != "main.rs" and f not in keep and f not in (extra_mods or {}):
            os.remove(os.path.join(d, "src", f))
    for f, text in (extra_mods or {}).items():
        write_if_changed(os.path.join(d, "src", f), text)
        mods.append("mod %s;" % f[:-3])
    main = """#![allow(non_camel_case_types, dead_code, unused_imports, unused_macros, clippy::all)]
use hcommon::Job;
use serde_json::{json, Value};
%s

macro_rules! obs {
    ($g:ident, $r:ident, $job:expr) => {{
        let mut m = serde_json::Map::new();
        m.insert("t".into(), hcommon::observe_typed::<$g::t::Rule, $g::t::rules::$r>($job));
        if $job.has('P') {
            m.insert("p".into(), hcommon::observe_pest::<$g::p::Rule, $g::p::P>($g::p::Rule::$r, &$job.full));
        }
        Value::Object(m)
    }};
}
macro_rules! obs_pair {
    ($g:ident, $r:ident, $job:expr) => {{
        let mut m = serde_json::Map::new();
        m.insert("t".into(), hcommon::observe_typed::<$g::t::Rule, $g::t::rules::$r>($job));
        if $job.has('T') {
            m.insert("pair".into(), hcommon::observe_pair::<$g::t::Rule, $g::t::rules::$r>($job));
        }
        Value::Object(m)
    }};
}
macro_rules! obs_tree {
    ($g:ident, $r:ident, $job:expr) => {{
        let mut m = serde_json::Map::new();
        m.insert("t".into(), hcommon::observe_typed::<$g::t::Rule, $g::t::rules::$r>($job));
        if $job.has('T') {
            m.insert("pair".into(), hcommon::observe_pair::<$g::t::Rule, $g::t::rules::$r>($job));
            m.insert("tree".into(), hcommon::observe_tree::<$g::t::Rule, $g::t::rules::$r>($job));
        }
        Value::Object(m)
    }};
}
macro_rules! obs_t {
    ($g:ident, $r:ident, $job:expr) => {{
        let mut m = serde_json::Map::new();
        m.insert("t".into(), hcommon::observe_typed::<$g::t::Rule, $g::t::rules::$r>($job));
        Value::Object(m)
    }};
}
%s
fn dispatch(job: &Job) -> Value {
    match (job.g.as_str(), job.rule.as_str()) {
%s
        _ => json!({"unknown": true}),
    }
}

fn main() {
    hcommon::run_main(dispatch);
}
""" % ("\n".join(mods), extra_main, "\n".join(arms))
    write_if_changed(os.path.join(d, "src", "main.rs"), main)
    sync_workspace()
    return "fam_" + name


SHARD = 14


def gen_family(name, grammars, with_pest=True, extra_main="", extra_mods=None):
    """Shard a family into crates of <= SHARD grammars (they build in parallel). Returns [(pkg, set(gids))]."""
    shards = []
    fam_dir = os.path.join(HARNESS, "fam")
    n = max(1, (len(grammars) + SHARD - 1) // SHARD)
    for k in range(n):
        part = grammars[k::n]
        pkg = gen_family_one("%s_%d" % (name, k), part, with_pest, extra_main, extra_mods)
        shards.append((pkg, {g["id"] for g in part}))
    # remove stale shards of this family
    import shutil
    if os.path.isdir(fam_dir):
        for d in os.listdir(fam_dir):
            if d.startswith(name + "_") and d[len(name) + 1:].isdigit() and int(d[len(name) + 1:]) >= n:
                shutil.rmtree(os.path.join(fam_dir, d), ignore_errors=True)
    sync_workspace()
    return shards


def sync_workspace():
    fams = sorted(f for f in os.listdir(os.path.join(HARNESS, "fam"))
                  if os.path.exists(os.path.join(HARNESS, "fam", f, "Cargo.toml"))) if os.path.isdir(os.path.join(HARNESS, "fam")) else []
    members = ['"pest2json"', '"hcommon"', '"textrun"', '"genrun"'] + ['"fam/%s"' % f for f in fams]
    text = """[workspace]
resolver = "2"
members = [%s]

[profile.dev]
debug = 0
incremental = false
opt-level = 0

[profile.nodbg]
inherits = "dev"
debug-assertions = false
overflow-checks = false

[profile.release]
debug = 0
""" % ", ".join(members)
    write_if_changed(os.path.join(HARNESS, "Cargo.toml"), text)
    lock = os.path.join(HARNESS, "Cargo.lock")
    if not os.path.exists(lock):
        import shutil
        shutil.copy("/repo/Cargo.lock", lock)


def build_family(shards, profile="dev"):
    """Build all shards (one cargo invocation); on compile errors located in a grammar module, report them.
    Returns (bins {pkg: path} or None, errors{gid: msg})."""
    pkgs = [p for p, _ in shards]
    p, bins = build_bins(pkgs, profile)
    if p.returncode == 0:
        return bins, {}
    errs = {}
    gids = set()
    for _, ids in shards:
        gids |= set(ids)
    for line in (p.stdout or "").splitlines():
        m = re.search(r"--> (?:fam/[^/]+/)?src/([A-Za-z0-9_]+)\.rs", line)
        if m and m.group(1) in gids:
            errs.setdefault(m.group(1), "")
    if not errs:
        raise ToolError("harness build failed outside generated grammar modules:\n" + (p.stdout or "")[-6000:])
    # attach message excerpts
    blocks = re.split(r"\n(?=error)", p.stdout or "")
    for b in blocks:
        if not b.startswith("error"):
            continue
        for gid in set(re.findall(r"--> (?:fam/[^/]+/)?src/([A-Za-z0-9_]+)\.rs", b)):
            if gid in gids:
                errs[gid] = (errs.get(gid, "") + b[:600] + "\n")[:3000]
    return None, errs
