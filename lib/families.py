"""Grammar families (deterministic generators). Each returns a list of
dict(id, text, alphabet:[cp], maxlen, inputs:[[cp]] extra, ctxs, opts).  `.pest` text is the single source:
pest2json (pest_meta) reads it for the model, both derives read it for the harness."""
import random, itertools, json, os
from vcommon import *
import peg

KINDS = {"normal": "", "silent": "_", "atomic": "@", "compound": "$", "nonatomic": "!"}
WS_SP = 'WHITESPACE = _{ " " }'
CM_HASH = 'COMMENT = _{ "#" ~ (!"#" ~ ANY)* ~ "#" }'


def rule(name, body, kind="normal"):
    return "%s = %s{ %s }" % (name, KINDS[kind], body)


def pack(prefix, rules, per, header="", alphabet=None, maxlen=3, **kw):
    """rules: list of (body, kind). Packs `per` rules into one grammar with names r0..; returns grammar dicts."""
    out = []
    for gi in range(0, len(rules), per):
        chunk = rules[gi:gi + per]
        lines = [header] if header else []
        for k, (body, kind) in enumerate(chunk):
            lines.append(rule("r%d" % k, body, kind))
        g = dict(id="%s%d" % (prefix, gi // per), text="\n".join(lines), alphabet=alphabet, maxlen=maxlen)
        g.update(kw)
        out.append(g)
    return out


def filter_valid(bodies, header="", tag="flt", kind="normal"):
    """Keep the rule bodies pest's validator accepts (each tried alone, with the header rules)."""
    grams = [dict(id="c%d" % i, text=(header + "\n" if header else "") + rule("r0", b[0] if isinstance(b, tuple) else b,
                                                                               b[1] if isinstance(b, tuple) else kind))
             for i, b in enumerate(bodies)]
    if not grams:
        return []
    read = peg.pest_read(grams, tag)
    return [b for b, r in zip(bodies, read) if r.get("valid")]


# ------------------------------------------------------------------------------------------------
LEAVES = ['"a"', '"b"', '^"A"', "'a'..'b'", "ANY", '"ab"', 'x', 'nx']
UNARY = ["%s?", "%s*", "%s+", "%s{2}", "%s{1,}", "%s{,2}", "%s{1,2}", "&%s", "!%s", "PUSH(%s)"]


def paren(e):
    return "(" + e + ")"


def fam_ops(tier):
    """Every operator alone and in depth-2 compositions over a few terminals, with and without WHITESPACE."""
    rnd = random.Random(1)
    bodies = []
    for l in LEAVES:
        bodies.append(l)
    for u in UNARY:
        for l in LEAVES[:4] + ['x', 'nx']:
            bodies.append(u % paren(l))
    for u1 in UNARY:
        for u2 in UNARY:
            for l in ['"a"', 'x']:
                bodies.append(u1 % paren(u2 % paren(l)))
    for u1 in UNARY:
        bodies.append(u1 % paren('nx ~ "b"'))
        bodies.append('nx ~ ' + (u1 % paren('"b"')))
    pairs = [('"a"', '"b"'), ('"a"', '"ab"'), ('"ab"', '"a"'), ('x', '"b"'), ('"a"?', '"a"'), ('"a"*', '"a"'), ('"a"', 'x*'), ('nx', '"b"'), ('"b"', 'nx')]
    for l1, l2 in pairs:
        for op in [" ~ ", " | "]:
            b = l1 + op + l2
            bodies.append(b)
            for u in UNARY:
                bodies.append(u % paren(b))
                bodies.append(b + " ~ " + (u % paren('"b"')))
                bodies.append((u % paren('"a"')) + op + l2)
    for l1, l2, l3 in [('"a"', '"b"', '"a"'), ('"a"', '"ab"', '"b"'), ('x', '"a"', 'x')]:
        bodies += ["%s ~ %s ~ %s" % (l1, l2, l3), "%s | %s | %s" % (l1, l2, l3), "(%s | %s) ~ %s" % (l1, l2, l3),
                   "%s ~ (%s | %s)" % (l1, l2, l3), "(%s ~ %s) | %s" % (l1, l2, l3), "(%s ~ %s)* ~ %s" % (l1, l2, l1),
                   "(%s ~ %s)+ ~ %s?" % (l1, l2, l3), "!(%s ~ %s) ~ ANY ~ %s" % (l1, l2, l3), "&(%s | %s) ~ ANY*" % (l1, l2)]
    builtins = ["SOI ~ \"a\"", "\"a\" ~ EOI", "SOI ~ ANY* ~ EOI", "NEWLINE", "ASCII_ALPHA+", "ASCII_DIGIT | ASCII_ALPHA_LOWER",
                "(!\"b\" ~ ANY)*", "(!(\"b\" | \"ab\") ~ ANY)* ~ \"b\"", "ASCII_ALPHANUMERIC* ~ \" \"", "ASCII_HEX_DIGIT{2}",
                "PEEK", "POP", "DROP", "PEEK_ALL", "POP_ALL", "PUSH(\"a\") ~ PEEK", "PUSH(\"a\") ~ POP ~ \"b\"", "PUSH(ANY) ~ PUSH(ANY) ~ POP_ALL",
                "PUSH(\"a\") ~ PUSH(\"b\") ~ PEEK_ALL", "PUSH(\"a\"+) ~ \"b\" ~ POP", "PUSH(ANY) ~ PEEK[0..1] ~ PEEK[-1..]", "PUSH(\"a\") ~ DROP ~ PEEK?"]
    bodies += builtins
    # user rules may shadow built-ins that are not pest keywords
    shadow = dict(id="osh", text="\n".join([rule("ASCII_DIGIT", '"a"'), rule("NEWLINE", '"b" ~ "a"?', "atomic"), rule("LETTER", '"b"', "silent"), rule("WHITE_SPACE", '" "'),
                                            rule("r0", "ASCII_DIGIT ~ NEWLINE"), rule("r1", "(LETTER | ASCII_DIGIT)* ~ ASCII_ALPHA?"), rule("r2", "ASCII_DIGIT{2} ~ !NEWLINE ~ ANY", "compound"),
                                            rule("r3", "WHITE_SPACE* ~ LETTER+ ~ EOI"), 'WHITESPACE = _{ WHITE_SPACE }']), alphabet=cps("ab 1\n"), maxlen=3 if tier == "quick" else 4)
    hdr_x = rule("x", '"a" ~ "b"?') + "\n" + rule("nx", '"a"+ ~ "b"*', "nonatomic")
    plain = filter_valid(bodies, hdr_x, "ops_f1")
    withws = filter_valid(bodies, hdr_x + "\n" + WS_SP + "\n" + CM_HASH, "ops_f2")
    rules = []
    kinds = list(KINDS)
    for i, b in enumerate(plain):
        rules.append((b, kinds[i % 5] if i % 3 == 0 else "normal"))
    if tier == "quick":
        rules = rules[::3]
        withws = withws[1::4]
    else:
        withws = withws
    out = pack("op", rules, 8, header=hdr_x, alphabet=cps("abA"), maxlen=3 if tier == "quick" else 4)
    rules2 = [(b, kinds[i % 5] if i % 2 == 0 else "normal") for i, b in enumerate(withws)]
    out += pack("ow", rules2, 8, header=hdr_x + "\n" + WS_SP + "\n" + CM_HASH, alphabet=cps("ab #"), maxlen=3 if tier == "quick" else 4)
    out.append(shadow)
    return out


# ------------------------------------------------------------------------------------------------
def rand_expr(rnd, depth, names, stack_ops, leaves):
    if depth == 0 or rnd.random() < 0.25:
        c = rnd.random()
        if names and c < 0.3:
            return rnd.choice(names)
        if stack_ops and c < 0.45:
            return rnd.choice(["PEEK", "POP", "DROP", "PEEK_ALL", "POP_ALL", "PEEK[0..1]", "PEEK[-1..]", "PEEK[1..]", "PEEK[..-1]"])
        return rnd.choice(leaves)
    c = rnd.randrange(12)
    sub = lambda: rand_expr(rnd, depth - 1, names, stack_ops, leaves)
    if c < 3:
        return "(" + " ~ ".join(sub() for _ in range(rnd.choice([2, 2, 3]))) + ")"
    if c < 5:
        return "(" + " | ".join(sub() for _ in range(rnd.choice([2, 2, 3]))) + ")"
    if c == 5:
        return "(" + sub() + ")?"
    if c == 6:
        return "(" + sub() + ")*"
    if c == 7:
        return "(" + sub() + ")" + rnd.choice(["+", "{2}", "{1,}", "{,2}", "{1,2}"])
    if c == 8:
        return "&(" + sub() + ")"
    if c == 9:
        return "!(" + sub() + ")"
    if c == 10 and stack_ops:
        return "PUSH(" + sub() + ")"
    return sub()


def fam_rand(tier, seed, n, flavour="plain"):
    """Seeded random grammars, filtered by pest's validator. flavour: plain | stack | ws | utf8"""
    rnd = random.Random("%s/%s" % (seed, flavour))
    out = []
    tries = 0
    while len(out) < n and tries < n * 30:
        tries += 1
        nrules = rnd.choice([3, 4, 5])
        names = ["r%d" % i for i in range(nrules)]
        if flavour == "mix":
            leaves = ['"a"', '"b"', '"é"', '^"A"', "'a'..'é'", "ANY", "SOI", "EOI", "NEWLINE", "LETTER", '"ab"', '" "']
            alphabet = [97, 98, 233, 32, 10]
            stack_ops = True
        elif flavour == "utf8":
            leaves = ['"a"', '"é"', '"中"', '"😀"', '^"É"', '^"e"', "'a'..'é'", "'é'..'中'", "ANY", "NEWLINE", "LETTER", "ALPHABETIC",
                      "EMOJI", "ASCII_ALPHA", '"e\\u{301}"', "UPPERCASE_LETTER", "HAN"]
            alphabet = [97, 233, 20013, 128512, 101, 10]
            stack_ops = False
        else:
            leaves = ['"a"', '"b"', '"c"', '"ab"', '^"a"', "'a'..'b'", "ANY", "SOI", "EOI", "ASCII_ALPHA"]
            alphabet = cps("abc")
            stack_ops = flavour == "stack"
        lines = []
        if flavour == "mix" and rnd.random() < 0.6:
            lines.append(rule("WHITESPACE", rnd.choice(['" "', '" " | NEWLINE']), rnd.choice(["silent", "silent", "normal", "atomic"])))
        if flavour == "ws":
            wk = rnd.choice(list(KINDS))
            ck = rnd.choice(list(KINDS))
            r = rnd.random()
            if r < 0.75:
                lines.append(rule("WHITESPACE", rnd.choice(['" "', '" "+', '" " | "\\t"', '" " ~ "#"?']), wk))
            if r > 0.35:
                lines.append(rule("COMMENT", rnd.choice(['"#"', '"#" ~ (!"#" ~ ANY)* ~ "#"', '"#"+', '"#" ~ "b"?']), ck))
            alphabet = cps("ab #")
            leaves = ['"a"', '"b"', '"ab"', "ANY", "EOI", '" "', '"#"'] + (["WHITESPACE"] if r < 0.75 else []) + (["COMMENT"] if r > 0.35 else [])
        for i, nm in enumerate(names):
            later = names[i + 1:]  # only forward references: no recursion -> well-founded
            body = rand_expr(rnd, rnd.choice([1, 2, 2, 3]) if flavour != "mix" else rnd.choice([2, 3, 3, 4]), later, stack_ops, leaves)
            lines.append(rule(nm, body, rnd.choice(list(KINDS)) if rnd.random() < 0.5 else "normal"))
        text = "\n".join(lines)
        g = dict(id="rd%s%d" % (flavour[0], len(out)), text=text, alphabet=alphabet, maxlen=3 if tier == "quick" else 4)
        if peg.pest_read([g], "rand_f")[0].get("valid"):
            out.append(g)
    return out


# ------------------------------------------------------------------------------------------------
def fam_kinds(tier):
    """Chains of rule kinds k1 -> k2 -> k3 around a sequence and a repetition x 4 WS/COMMENT combinations."""
    kinds = list(KINDS)
    combos = [("", ""), (WS_SP, ""), ("", 'COMMENT = _{ "#" }'), (WS_SP, 'COMMENT = _{ "#" }')]
    out = []
    gi = 0
    chains = list(itertools.product(kinds, repeat=3))
    if tier == "quick":
        rnd = random.Random(7)
        chains = [c for c in chains if c[2] == "normal" or rnd.random() < 0.25]
    for ci, (ws, cm) in enumerate(combos):
        hdr = "\n".join(x for x in (ws, cm) if x)
        for k1, k2, k3 in chains:
            lines = [hdr] if hdr else []
            lines.append(rule("r0", 'r1 ~ "c"', k1))
            lines.append(rule("r1", 'r2 ~ "b"* ~ r2', k2))
            lines.append(rule("r2", '"a" ~ "a"', k3))
            out.append(dict(id="k%d" % gi, text="\n".join(lines), alphabet=cps("abc #") if ci else cps("abc "),
                            maxlen=0, entries=["r0", "r1"], inputs=[]))
            gi += 1
    # structured inputs: sentences of the grammar with optional skippable text at every gap
    for g in out:
        sk = [""] + ([" "] if "WHITESPACE" in g["text"] else []) + (["#"] if "COMMENT" in g["text"] else []) + ([" #"] if "COMMENT" in g["text"] and "WHITESPACE" in g["text"] else [])
        if sk == [""]:
            sk = ["", " "]
        ins = set()
        rnd = random.Random(g["id"])
        gaps = 6
        allc = list(itertools.product(sk, repeat=gaps))
        rnd.shuffle(allc)
        for gs in allc[: (40 if tier == "quick" else 200)]:
            for nb in (0, 1, 2):
                # r1 = r2 b* r2 ; r2 = a a ; r0 = r1 c
                s = "a" + gs[0] + "a" + gs[1] + (("b" + gs[2]) * nb) + "a" + gs[3] + "a" + gs[4] + "c" + gs[5]
                ins.add(s)
                ins.add(gs[5] + s)
        ins |= {"aaaac", "aa aac", "aaaa", "aabaa", "a a", "aa b aa c"}
        g["inputs"] = [cps(s) for s in sorted(ins)]
    return out


# ------------------------------------------------------------------------------------------------
def fam_stack(tier):
    """{choice, optional, repetition, &, !} x stack effects x failing continuation x probe suffix (C05),
    and slices a,b in -3..3 / -6..6 over depth <= 4 (C06)."""
    effects = ['PUSH("b")', "POP", "DROP", "POP_ALL", 'PUSH("b") ~ PUSH("a")', 'POP ~ PUSH("b")', 'DROP ~ PUSH("c")', '(POP? ~ "z")?', '(DROP | PUSH("c")) ~ "z"']
    probes = ["POP_ALL ~ EOI", "PEEK_ALL ~ EOI", "PEEK[0..] ~ EOI", "DROP ~ PEEK? ~ ANY* ", "PEEK ~ POP ~ ANY*"]
    cons = [("alt", '(%s ~ "z" | "")'), ("alt2", '(%s ~ "z" | %s ~ "y" | "")'), ("opt", '(%s ~ "z")?'), ("rep", '(%s ~ "z")*'),
            ("pos", '&(%s) ~ ""'), ("posf", '(&(%s ~ "z"))?'), ("neg", '!(%s ~ "z")'), ("negs", '(!(%s))?'), ("nest", '((%s ~ "z")? ~ "y")?'),
            ("repn", '(%s ~ ("z" | "y"))*')]
    rules = []
    for cn, ct in cons:
        for ef in effects:
            for pr in probes:
                body = 'PUSH("a") ~ PUSH("b"?) ~ ' + (ct.replace("%s", ef)) + " ~ " + pr
                rules.append(body)
    rules = filter_valid(rules, "", "stack_f")
    if tier == "quick":
        rules = rules[::5]
    krules = []
    kinds = ["normal", "atomic", "normal", "compound", "normal", "nonatomic"]
    for i, b in enumerate(rules):
        krules.append((b, kinds[i % len(kinds)]))
    out = pack("st", krules, 8, alphabet=cps("abzy"), maxlen=0)
    rnd = random.Random(11)
    for g in out:
        ins = set()
        for n in range(0, 8 if tier != "quick" else 7):
            for _ in range(60 if tier == "quick" else 300):
                ins.add("".join(rnd.choice("abzyc") for _ in range(n)))
        # likely-accepted shapes
        for pre in ["a", "ab"]:
            for mid in ["", "z", "bz", "az", "y", "zz", "bzbz", "abz", "cz"]:
                for suf in ["", "a", "b", "ab", "ba", "bab", "c", "ca", "abb", "bb", "aba"]:
                    ins.add(pre + mid + suf)
        g["inputs"] = [cps(s) for s in sorted(ins)]
        g["alphabet"] = cps("abzyc")
    return out


def fam_slices(tier):
    lim = 3 if tier == "quick" else 6
    rules = []
    for a in range(-lim, lim + 1):
        rules.append("PEEK[%d..]" % a)
        rules.append("PEEK[..%d]" % a)
        for b in range(-lim, lim + 1):
            rules.append("PEEK[%d..%d]" % (a, b))
    rules += ["PEEK", "POP", "DROP", "PEEK_ALL", "POP_ALL", "PEEK[..]", "POP ~ POP", "DROP ~ PEEK", "PEEK ~ PEEK", "POP_ALL ~ PEEK?", "DROP ~ DROP ~ DROP ~ DROP ~ DROP?"]
    # repetitions whose iterations are zero-width but change the stack: they go on until the stack is empty
    rules += ["DROP*", "DROP+ ~ PEEK?", "DROP{2,} ~ PEEK_ALL", "POP* ~ \"a\"?", "(DROP ~ PEEK?)*", "POP+", "(!\"c\" ~ POP)* ~ PEEK_ALL"]
    # the stack the built-ins see after abandoned attempts that popped (nested optionals, choice in optional, predicate in optional)
    for op in ["PEEK_ALL", "PEEK[0..1]", "POP", "PEEK[-1..]", "DROP ~ PEEK?", "POP_ALL"]:
        rules.append('(POP? ~ "x")? ~ ' + op)
        rules.append('((DROP | "y")? ~ "x")? ~ ' + op)
        rules.append('(&(POP? ~ POP?) ~ DROP? ~ "x")? ~ ' + op)
    out = []
    per = 10
    for gi in range(0, len(rules), per):
        lines = ['psh = _{ PUSH("a" | "bb" | "c ") }', 'WHITESPACE = _{ " " }']
        ents = []
        for k, b in enumerate(rules[gi:gi + per]):
            kind = ["normal", "atomic", "compound", "nonatomic"][k % 4]
            lines.append(rule("r%d" % k, 'psh{,4} ~ ";" ~ %s ~ EOI' % b, kind))
            ents.append("r%d" % k)
        out.append(dict(id="sl%d" % (gi // per), text="\n".join(lines), alphabet=cps("abc; "), maxlen=0, entries=ents))
    rnd = random.Random(5)
    for g in out:
        ins = set()
        words = ["a", "bb", "c "]
        for depth in range(0, 5):
            for _ in range(12 if tier == "quick" else 40):
                ws = [rnd.choice(words) for _ in range(depth)]
                stacktxt = "".join(ws)
                for sep in ["", " "]:
                    base = sep.join(ws) + sep + ";"
                    # candidate suffixes: concatenations of sub-slices in both orders, with an edit
                    for i in range(0, depth + 1):
                        for j in range(i, depth + 1):
                            for order in (ws[i:j], ws[i:j][::-1]):
                                suf = "".join(order)
                                ins.add(base + suf)
                                ins.add(base + sep + suf)
                                if suf:
                                    ins.add(base + suf[:-1])
                                    ins.add(base + suf + "a")
        g["inputs"] = [cps(s) for s in sorted(ins)][: (700 if tier == "quick" else 4000)]
    return out


# ------------------------------------------------------------------------------------------------
def fam_trail(tier):
    """Full-parse behaviour: trailing WHITESPACE / COMMENT / unterminated comment, entry rule of each kind."""
    out = []
    gi = 0
    combos = [(WS_SP, CM_HASH), (WS_SP, ""), ("", CM_HASH), ("", ""),
              ('WHITESPACE = { " " }', 'COMMENT = @{ "#" ~ (!"#" ~ ANY)* ~ "#" }'),
              ('WHITESPACE = ${ " " | "\\t" }', 'COMMENT = !{ "#" ~ "b"* ~ "#" }')]
    for ws, cm in combos:
        hdr = "\n".join(x for x in (ws, cm) if x)
        lines = [hdr] if hdr else []
        for k, kind in enumerate(KINDS):
            lines.append(rule("r%d" % k, '"a" ~ "b"*', kind))
        lines.append(rule("e0", '"a" ~ "b"* ~ EOI'))
        lines.append(rule("e1", '"a" ~ "b"* ~ EOI', "atomic"))
        lines.append(rule("s0", 'SOI ~ "a"? ~ "b"?', "silent"))
        out.append(dict(id="tr%d" % gi, text="\n".join(lines), alphabet=cps("ab #\t"), maxlen=3 if tier == "quick" else 4,
                        inputs=[cps(s) for s in ["ab  ", "ab #b#", "ab #b", "abb# #", "a b b #bb# ", "ab\t", "a#b#b", "ab#", "ab # # ", " ab", "#b#ab"]]))
        gi += 1
    return out


def fam_sub(tier):
    """Sub-inputs (Span / Position): matchers next to the cut, needles and multi-byte characters straddling it."""
    lines = [rule("until", '(!"ab" ~ ANY)* ~ "ab"?', "atomic"), rule("until2", '(!("é" | "bc") ~ ANY)*', "atomic"),
             rule("lit", '"ab" ~ "é"?'), rule("ins", '^"aB" ~ ^"é"'), rule("rng", "('a'..'é')+"), rule("any", "ANY{2}"),
             rule("se", 'SOI ~ "a"* ~ EOI'), rule("e2", '"a" ~ !EOI ~ ANY | "a" ~ EOI'), rule("nl", "NEWLINE ~ \"a\"?"),
             rule("cls", "ALPHABETIC+ ~ ASCII_DIGIT?"), rule("pk", 'PUSH(ANY) ~ PEEK ~ "b"?'), rule("neg", '!"ab" ~ ANY ~ &"b"?'),
             rule("w", '"a" ~ "b"'), 'WHITESPACE = _{ " " }']
    text = "\n".join(lines)
    ctx = [["", ""], ["", "b"], ["x", ""], ["a", "b"], ["é", "é"], ["", "c"], ["ab", "ab"], [" ", " "], ["\r", "\n"], ["", "B"], ["a", "1"]]
    g = dict(id="sub0", text=text, alphabet=cps("abé \n") if tier != "quick" else cps("abé "), maxlen=3 if tier == "quick" else 4,
             ctxs=[[cps(a), cps(b)] for a, b in ctx],
             inputs=[cps(s) for s in ["xxa", "xxab", "aé", "aBé", "a\r", "\r", "ab", "éb", "aab", "a b"]])
    return [g]


def fam_utf8(tier):
    lines = [rule("l1", '"a" ~ "é" ~ "中" ~ "😀"'), rule("l2", '("é" | "中" | "😀")*'), rule("i1", '^"é" ~ ^"E"'), rule("i2", '^"ée"'),
             rule("r1", "'a'..'é'"), rule("r2", "('é'..'中')+ ~ ANY"), rule("r3", "'\\u{80}'..'\\u{10ffff}'"), rule("a1", "ANY ~ ANY"),
             rule("n1", "!\"é\" ~ ANY"), rule("u1", "LETTER+ ~ EMOJI?"), rule("u2", "HAN | LOWERCASE_LETTER"), rule("s1", '(!"中" ~ ANY)*', "atomic"),
             rule("p1", 'PUSH("é" | "😀") ~ "a"? ~ POP'), rule("nl", "(NEWLINE | \"e\")*"), rule("c1", "ANY{1,3} ~ EOI", "compound")]
    text = "\n".join(lines)
    g = dict(id="u0", text=text, alphabet=[97, 233, 20013, 128512, 101, 10, 13] if tier != "quick" else [97, 233, 20013, 128512, 101],
             maxlen=3 if tier == "quick" else 4, inputs=[cps(s) for s in ["aé中😀", "Ée", "ÉE", "éE", "é", "\r\n\r"]])
    return [g]


def fam_err(tier):
    """Error reports: predicates nested around rules, atomic / silent rules, EOI, stack special errors."""
    lines = [rule("x", '"a"'), rule("y", '"b" ~ x'), rule("z", 'x ~ y', "atomic"), rule("s", "x | y", "silent"),
             rule("e0", "x ~ y ~ EOI"), rule("e1", "!x ~ ANY ~ y"), rule("e2", "&x ~ !y ~ ANY ~ !(!x) ~ ANY"), rule("e3", "!(x ~ y) ~ s ~ s"),
             rule("e4", "z | s ~ z"), rule("e5", "(x ~ y)* ~ EOI"), rule("e6", "!(&x ~ y) ~ x?  ~ !EOI ~ ANY"), rule("e7", "x? ~ \"a\" ~ DROP"),
             rule("e8", "x ~ PEEK[1..2]"), rule("e9", "(!y ~ \"q\")? ~ x ~ POP"), rule("e10", "x ~ y ~ x", "compound"), rule("e11", "s ~ !s ~ ANY", "nonatomic"),
             'WHITESPACE = _{ " " }']
    g = dict(id="er0", text="\n".join(lines), alphabet=cps("abq "), maxlen=4 if tier == "quick" else 5)
    # failures inside and around line terminators, multi-byte text before the failure position
    l2 = [rule("ln", '(!"\\n" ~ ANY)*', "atomic"), rule("x", '"a"'), rule("f0", 'ln ~ x'), rule("f1", '"\\r" ~ x'), rule("f2", 'ANY ~ ANY ~ x ~ EOI'),
          rule("f3", '(x | "\\r" | "\\n")* ~ "é" ~ x'), rule("f4", 'NEWLINE ~ x ~ NEWLINE ~ x'), rule("f5", '(!x ~ ANY)* ~ x ~ !x ~ ANY')]
    g2 = dict(id="er1", text="\n".join(l2), alphabet=[97, 13, 10, 233], maxlen=4 if tier == "quick" else 5,
              inputs=[cps(s) for s in ["a\r\nb", "ab\r", "é\r\na", "a\r\n\r\n", "aé\r"]])
    return [g, g2]


def fam_dyck(tier):
    lines = [rule("t", '"(" ~ t* ~ ")"'), rule("u", '"(" ~ (u | v)* ~ ")"'), rule("v", '"[" ~ w* ~ "]"'), rule("w", 'u | "x"', "silent"),
             rule("top", "SOI ~ t* ~ EOI"), rule("a", '"(" ~ t* ~ ")"', "atomic"), rule("c", '"(" ~ (t | a)* ~ ")"', "compound"),
             rule("n", '"(" ~ c* ~ ")"', "nonatomic")]
    return [dict(id="dy0", text="\n".join(lines), alphabet=cps("()[]x"), maxlen=0, inputs=[])]


def dyck_words(n):
    """all balanced words with n pairs"""
    if n == 0:
        return [""]
    out = []
    for k in range(n):
        for a in dyck_words(k):
            for b in dyck_words(n - 1 - k):
                out.append("(" + a + ")" + b)
    return out


def fam_dyck_inputs(tier):
    g = fam_dyck(tier)[0]
    ins = []
    for n in range(1, 5 if tier == "quick" else 7):
        for w in dyck_words(n):
            if w.count("(") == n and w[0] == "(":
                # single top-level tree only: "(" + inner + ")"
                pass
            ins.append(w)
    trees = ["(" + w + ")" for n in range(0, 4 if tier == "quick" else 6) for w in dyck_words(n)]
    mixed = ["([x])", "([(())x])", "([x][x])", "(([x])[])", "([])", "((", "(()", "())", "([x)", "([(])"]
    g["inputs"] = [cps(s) for s in sorted(set(trees + mixed + ins[:50]))]
    return [g]


# ------------------------------------------------------------------------------------------------
def fam_get(tier):
    """C16: bodies enumerating the positions in which a rule can be mentioned."""
    bodies = ["x", "x?", "x*", "x+", "x ~ x", "x ~ y ~ x", "(x | y ~ x)", "(x ~ y)*", "&x ~ x", "!x ~ y", "!x ~ ANY ~ x", "PUSH(x)", "PUSH(x) ~ POP ~ x?",
              "(x | y)? ~ (x ~ (y | x)*)+", "x{2}", "x{1,2}", "(x ~ z)*", "z ~ x ~ z", "(z | x)", "((x ~ y) | (y ~ x))", "(x? ~ y)*", "&(x ~ y) ~ x", "x ~ (&x)?",
              "w ~ x ~ w", "x ~ EOI", "SOI ~ x* ~ EOI", "(x?)?", "(x*)?", "(x | y | z | w)*", "(x ~ x)+", "x? ~ x? ~ x?", "(x | x ~ y)", "(y | x)? ~ x*", "((x | y)*)",
              "!(x ~ x) ~ x", "&(x | y) ~ (y | x)", "PUSH(x | y) ~ PEEK", "(PUSH(x))* ~ POP_ALL", "x ~ (y ~ x)*", "(x ~ y)* ~ x", "(x ~ (y ~ (x ~ y?)?)?)", "((((x)?)*)?)",
              "(x | y)+ ~ z?", "(z ~ x)? ~ (z ~ y)?", "(x ~ \"-\" ~ x) | x", "x ~ \"-\"? ~ y ~ \"-\"? ~ x", "(\"-\" ~ x)* ~ (\"-\" | y)", "v", "v ~ x", "(v | x)*",
              "x ~ x ~ (x ~ y ~ z)", "(\"-\" ~ x | \"-\"? ~ x ~ x | x ~ y ~ w)", "x ~ \"-\" ~ x ~ &(x ~ y ~ z) ~ ANY*", "x? ~ (\"-\" ~ x)? ~ (y ~ x ~ z)?",
              "x ~ x ~ x ~ (y | x ~ y ~ z ~ w)", "(x | y) ~ (x | y) ~ (w ~ x ~ y ~ z)?", "x* ~ \"-\" ~ x* ~ (y ~ z ~ x)*", "y ~ x ~ y ~ (x ~ y ~ z)", "(x ~ (x ~ (x ~ y ~ z)))",
              # iterations that consume nothing but pop: every one of them is a node of the Vec
              "PUSH(e) ~ PUSH(e) ~ p*", "PUSH(e) ~ PUSH(e) ~ \"-\"? ~ (p ~ x?)+", "PUSH(e) ~ (PUSH(e) ~ p ~ p?)? ~ p*",
              # a rule tried again at the same offset under another stack / another atomicity: the second try is a fresh one
              "(PUSH(\"ab\") ~ q | PUSH(\"a\") ~ \"b\" ~ q) ~ ANY*", "(cxy | xy ~ \"-\") ~ ANY*", "(cxy ~ \"-\")? ~ xy ~ y?", "(cxy | xy ~ \"-\")* ~ ANY*", "(PUSH(\"ab\") ~ q ~ DROP | PUSH(\"a\") ~ \"b\" ~ q ~ DROP)* ~ ANY*"]
    hdr = "\n".join([rule("x", '"a"'), rule("y", '"b"'), rule("z", '"c"', "silent"), rule("w", '"d"', "atomic"), rule("v", 'x ~ y?', "silent"),
                     rule("e", '"a"?'), rule("p", "POP"), rule("q", "PEEK"), rule("xy", '"a" ~ "b"'), rule("cxy", 'xy ~ "c"', "compound")])
    kinds = ["normal", "silent", "compound", "nonatomic", "normal"]
    out = []
    for ws in (False, True):
        h = hdr + ("\n" + WS_SP if ws else "")
        ok = filter_valid(bodies, h, "get_f")
        rules = [(b, kinds[i % len(kinds)]) for i, b in enumerate(ok)]
        if tier == "quick":
            rules = rules[(1 if ws else 0)::2]
        out += pack("gw" if ws else "gp", rules, 8, header=h, alphabet=cps("abcd- ") if ws else cps("abcd-"), maxlen=3 if tier == "quick" else 4,
                    inputs=[cps(s) for s in ["abab", "aaaa", "a-a", "a-b-a", "-a-a-", "abaab", "a b a", "aa a", "a - a", "caca", "dad", "ababa", "aba", "a b-", "ab-", "abc", "a bb", "abc-ab", "abc a b-", "a b-abc", "abc a b- a b-", "ababab", "abaabab"]])
    return out


# ------------------------------------------------------------------------------------------------
def _unescape_rust(s):
    try:
        return bytes(s, "utf-8").decode("unicode_escape").encode("latin-1").decode("utf-8")
    except Exception:
        return s


def fam_repo(tier):
    """The repository's own grammars with the literal inputs of its test-suite ("validate what the existing tests exercise")."""
    import re
    out = []
    base = "/repo/derive/tests"
    def literals(src):
        lits = set()
        for m in re.finditer(r'"((?:[^"\\]|\\.)*)"', src):
            s = _unescape_rust(m.group(1))
            if len(s) <= 40 and "\n  " not in s:
                lits.add(s)
        return lits
    try:
        gtext = open(os.path.join(base, "grammar.pest")).read()
        gtext = re.sub(r"#\w+\s*=\s*", "", gtext)        # node tags need the grammar-extras feature
        src = open(os.path.join(base, "grammar_typed.rs")).read()
        ins = set(m for m in re.findall(r'input:\s*"((?:[^"\\]|\\.)*)"', src))
        ins = {_unescape_rust(s) for s in ins}
        ins |= {"abc abc abc", "abc$$abc", "abc $ abc", "a,b,c,cba", "a,b,c,cb", "0123", "01 ", "ab", "", "abcabcabcabc", "abc   abc   abc", "\r\n\n\r"}
        g = dict(id="rp0", text=gtext, alphabet=[], maxlen=0, inputs=[cps(s) for s in sorted(ins)])
        out.append(g)
    except OSError:
        pass
    for fn in ["skip.rs", "peek-1.rs", "peek-2.rs", "tree.rs", "inter_reference.rs", "inputs.rs", "sequence.rs", "long.rs"]:
        try:
            src = open(os.path.join(base, fn)).read()
        except OSError:
            continue
        m = re.search(r'#\[grammar_inline\s*=\s*r#"(.*?)"#\]', src, re.S)
        if not m:
            continue
        lits = literals(src[m.end():])
        gid = "rp_" + re.sub(r"\W", "", fn[:-3])
        out.append(dict(id=gid, text=m.group(1), alphabet=[], maxlen=0, inputs=[cps(s) for s in sorted(lits)][:60]))
    try:
        csv = open("/repo/derive/examples/csv.pest").read()
        out.append(dict(id="rp_csv", text=csv, alphabet=[], maxlen=0,
                        inputs=[cps(s) for s in ["1,2\n", "65279,1179403647,1463895090\n3.1415927,2.7182817,1.618034\n", "1,\n", "-273.15,12\n", ",", "1,2", "1.5,2\n3\n", ""]]))
    except OSError:
        pass
    # keep what pest accepts (the derive would refuse the rest anyway)
    read = peg.pest_read(out, "repo_f")
    keep = []
    for g, r in zip(out, read):
        if r.get("valid") and not r.get("pairs_errors"):
            keep.append(g)
    return keep


def fam_skipstack(tier):
    """Skip rules (only one of WHITESPACE / COMMENT defined, or both) whose bodies use the stack: a failed skip attempt
    must not leave anything on the stack (C05), probes make a leak visible."""
    out = []
    bodies = ['"#" ~ PUSH("="*) ~ "[" ~ (!"]" ~ ANY)* ~ "]" ~ POP ~ "#"', '"#" ~ PUSH("=") ~ "!"', 'PUSH("#") ~ "-" ~ DROP', '"#" ~ (PUSH("=") ~ "x")? ~ "#"',
              'PUSH("#"+) ~ "=" ~ POP']
    probes = ['"a" ~ "b" ~ PEEK_ALL ~ EOI', '"a" ~ "b"* ~ POP_ALL ~ "c"?', 'PUSH("a") ~ "b" ~ PEEK[0..1] ~ ANY*', '("a" ~ "b")* ~ DROP? ~ PEEK?  ~ EOI', 'PUSH("a") ~ "b" ~ DROP ~ DROP? ~ "c"',
              # a sequence of terminals only runs the implicit skip between them: abandoned, whatever the skip pushed goes too
              '("a" ~ "c")? ~ "a" ~ "b" ~ PEEK_ALL ~ EOI', '("a" ~ "c" | ANY ~ "b") ~ POP_ALL ~ "c"?', '!("a" ~ "c") ~ &("a" ~ "b") ~ "a" ~ "b" ~ PEEK_ALL ~ EOI']
    gi = 0
    for which in ("COMMENT", "WHITESPACE", "both"):
        for bi, b in enumerate(bodies):
            lines = []
            if which in ("COMMENT", "both"):
                lines.append(rule("COMMENT", b, "silent"))
            if which == "WHITESPACE":
                lines.append(rule("WHITESPACE", b, "silent"))
            if which == "both":
                lines.append(WS_SP)
            for k, p in enumerate(probes):
                lines.append(rule("r%d" % k, p, ["normal", "nonatomic", "normal", "compound", "normal", "normal", "nonatomic", "normal"][k]))
            g = dict(id="ss%d" % gi, text="\n".join(lines), alphabet=cps("ab#=[]!-x "), maxlen=0, entries=["r%d" % k for k in range(len(probes))])
            ins = set()
            seps = ["#=[x]=#", "#=[x", "#=!", "#=", "#-", "#", "#=x#", "#=x", "##=#", "##=", "#[]#", "#==[a]==#", "#==[a]=#", " ", ""]
            for s1 in seps:
                for s2 in seps[:8] + [""]:
                    for tail in ["", "a", "#", "=", "c", "a#="]:
                        ins.add("a" + s1 + "b" + s2 + tail)
                        ins.add("a" + s1 + "b" + s2 + "a" + s1 + "b" + tail)
            g["inputs"] = [cps(s) for s in sorted(ins)][: (400 if tier == "quick" else 2000)]
            out.append(g)
            gi += 1
    read = peg.pest_read(out, "ss_f")
    return [g for g, r in zip(out, read) if r.get("valid")]


def fam_skipuntil(tier):
    """Atomic rules of the shape pest's skipper turns into a Skip node: one and several terminators, terminators that are
    prefixes of each other, multi-byte text before the terminator, terminator at the very end."""
    lines = [rule("k0", '(!("b" | "ab") ~ ANY)*', "atomic"), rule("k1", '(!("\\n" | "a") ~ ANY)* ~ ("a" | "\\n")?', "atomic"),
             rule("k2", '(!("ab" | "b" | "c") ~ ANY)* ~ ANY?', "atomic"), rule("k3", '"/*" ~ (!"*/" ~ ANY)* ~ "*/"', "atomic"),
             rule("k4", '(!("é" | ";") ~ ANY)* ~ ";"', "atomic"), rule("k5", '(!"中" ~ ANY)* ~ "中" ~ (!("a" | "中") ~ ANY)*', "atomic"),
             rule("k6", '"\'" ~ (!"\'" ~ ANY)* ~ "\'"', "atomic"), rule("k7", '(!("c" | "bc" | "abc") ~ ANY)* ~ ("abc" | "bc" | "c")', "atomic"),
             # terminators that contain / repeat one another (none is redundant unless it has another as a *prefix*)
             rule("k8", '(!("ba" | "a") ~ ANY)* ~ ANY?', "atomic"), rule("k9", '(!("\\r\\n" | "\\n") ~ ANY)* ~ NEWLINE?', "atomic"),
             rule("k10", '(!("cab" | "b" | "ab" | "b") ~ ANY)*', "atomic"),
             # different terminator lists with the same concatenation (each rule keeps its own list)
             rule("k11", '(!("c" | "b") ~ ANY)*', "atomic"), rule("k12", '(!"cb" ~ ANY)* ~ "cb"?', "atomic"), rule("k13", '(!("a" | "bc") ~ ANY)* ~ ANY?', "atomic"),
             rule("k14", '(!("ab" | "c") ~ ANY)* ~ ANY?', "atomic"),
             rule("n0", 'k0 ~ "b" ~ k2', "nonatomic"), rule("n1", "k3+")]
    g1 = dict(id="su0", text="\n".join(lines), alphabet=cps("abc\n"), maxlen=3 if tier == "quick" else 4,
              inputs=[cps(s) for s in ["a\nb\r\nc", "cab", "xxabc", "aaab", "/**/", "/*a*/", "/* é */", "/*é*/", "/*中*/", "é;", "éé;", "a中;", "中é;é", "'é'", "'中😀'", "ab中a", "é中é中a",
                                        "😀😀;", "aé;", "/*😀*/x", "/*a*", "aaé;", "cba", "ccab", "x\r\n", "\rx\r\n", "c\r\n\n", "aacb", "abcb", "acab", "bbca"]])
    return [g1]


def fam_skiprules(tier):
    """Exactly one of WHITESPACE / COMMENT defined (and both), with multi-element bodies of every kind: their bodies are
    matched atomically wherever they are used implicitly; adjacent / nested-looking skip text in every gap."""
    bodies = ['"#" ~ "#"', '"#" ~ (!"#" ~ ANY)* ~ "#"', '"#"+', '!"##" ~ "#" ~ "!"?', '("#" | " ") ~ "!"?', '"#" ~ ("!" ~ "#")*', '&"#" ~ ANY ~ "#"?']
    out = []
    gi = 0
    for which in ("COMMENT", "WHITESPACE", "both"):
        for bi, b in enumerate(bodies):
            for kind in (["silent", "normal"] if tier == "quick" else ["silent", "normal", "atomic", "compound"]):
                lines = []
                if which == "both":
                    lines.append(rule("COMMENT", b, kind))
                    lines.append(WS_SP)
                else:
                    lines.append(rule(which, b, kind))
                lines += [rule("r0", '"a" ~ "b" ~ "a"'), rule("r1", '("a" | "b")* ~ EOI'), rule("r2", '"a" ~ "b"+', "nonatomic"), rule("r3", 'r2 ~ "a"', "atomic")]
                g = dict(id="sr%d" % gi, text="\n".join(lines), alphabet=cps("ab#! "), maxlen=0, entries=["r0", "r1", "r2", "r3"])
                gaps = ["", "#", "##", "###", "# #", "#!#", "#!", "#a#", " ", "#!#!#", "####", "##!", "#b#", "# ##"]
                ins = set()
                for g1 in gaps:
                    for g2 in gaps[:8]:
                        ins.add("a" + g1 + "b" + g2 + "a")
                        ins.add("a" + g1 + "b" + g2)
                        ins.add("ab" + g1 + "b" + g2 + "a")
                g["inputs"] = [cps(s) for s in sorted(ins)]
                out.append(g)
                gi += 1
    read = peg.pest_read(out, "sr_f")
    return [g for g, r in zip(out, read) if r.get("valid")]


def rand_json(rnd, depth):
    c = rnd.random()
    ws = lambda: rnd.choice(["", "", " ", "\n", "\t ", "\r\n"])
    if depth == 0 or c < 0.35:
        k = rnd.randrange(6)
        if k == 0:
            return rnd.choice(["true", "false", "null"])
        if k in (1, 2):
            return rnd.choice(["0", "-0", "12", "-7.25", "1e5", "2.5E-3", "10", "3.0e+2", "0.1"])
        s = "".join(rnd.choice(["a", "b", " ", "é", "中", "\\n", "\\\"", "\\\\", "\\u00e9", "\\/", "x"]) for _ in range(rnd.randrange(0, 6)))
        return '"' + s + '"'
    if c < 0.7:
        n = rnd.randrange(0, 4)
        return "[" + ws() + ("," + ws()).join(rand_json(rnd, depth - 1) + ws() for _ in range(n)) + "]"
    n = rnd.randrange(0, 4)
    items = []
    for _ in range(n):
        items.append('"' + rnd.choice(["k", "key", "é", ""]) + '"' + ws() + ":" + ws() + rand_json(rnd, depth - 1) + ws())
    return "{" + ws() + ("," + ws()).join(items) + "}"


def fam_json(tier, seed):
    """The repository's benchmark grammar (derive/benches/json.pest) with seeded random documents: long inputs for trace validation."""
    import re
    try:
        text = open("/repo/derive/benches/json.pest").read()
    except OSError:
        return []
    text = re.sub(r"#\w+\s*=\s*", "", text)
    rnd = random.Random("json/%s" % seed)
    docs = []
    for _ in range(40 if tier == "quick" else 300):
        d = rand_json(rnd, rnd.choice([2, 3, 4]))
        if rnd.random() < 0.25 and d:
            k = rnd.randrange(len(d))
            d = d[:k] + rnd.choice(["", ",", "]", "x", '"']) + d[k + 1:]      # one edit: mostly rejected documents
        docs.append(rnd.choice(["", " ", "\n"]) + d + rnd.choice(["", " ", "\n"]))
    g = dict(id="js0", text=text, alphabet=[], maxlen=0, inputs=[cps(s) for s in ["true", "[1, 2]", '{"a": null}', '"x"']], entries=["json", "value", "string", "number"],
             long_inputs=[cps(s) for s in docs])
    r = peg.pest_read([g], "json_f")[0]
    return [g] if r.get("valid") else []


def fam_odd(tier):
    """Unusual but valid constructs: escapes in strings and ranges, empty strings, non-ASCII insensitive strings, arities of 20,
    deep nesting, names with underscores and digits: every one must compile and behave as pest does."""
    lines = [r's1 = { "\"" ~ "\\" ~ "\u{e9}" }', r's2 = { ^"é" ~ ^"ß" ~ ^"K" }', r"s3 = { '\''..'\\' }", r's4 = { "" ~ "a" ~ "" }',
             r's5 = { "\t" ~ "\r\n" ~ "\x41" }',
             "c20 = { " + " | ".join('"%s"' % (chr(97 + i % 3) * (1 + i % 4)) for i in range(20)) + " }",
             "q20 = { " + " ~ ".join("'a'..'c'" for i in range(20)) + " }",
             '_under = { "a" }', 'r_9 = ${ _under ~ _under? }',
             'nest = { ((((("a")?) ~ "b")* ~ ("c" | ("a" ~ ("b" | ("c" ~ "a")?)))?)) }',
             r"u1 = { '\u{e0}'..'\u{ff}' ~ '\u{1F600}'..'\u{1F64F}' }",
             r'WHITESPACE = _{ "\u{a0}" | " " }']
    g = dict(id="odd0", text="\n".join(lines), alphabet=[97, 98, 99, 34, 92, 233, 32], maxlen=3 if tier == "quick" else 4,
             inputs=[cps(s) for s in ['"\\é', 'éßk', 'ÉSSK', 'éßK', "'", "\\", "(", "a", "\t\r\nA", "abcabcabcabcabcabcabc",
                                      "a b c a b c a b c a b c a b c a b c a b", "a a", "aa", "é😀", "ÿ😃", "tt", "ss", "ababcab", "bbc", "cacab",
                                      "a\u00a0b", "\" \\ é"]])
    # the generated rules::EOI used as an entry point (with and without skip rules defined)
    e1 = dict(id="odd1", text='a = { "a"* }\nz = { "z" ~ EOI }\nWHITESPACE = _{ " " }\nCOMMENT = _{ "#" }', alphabet=cps("a #"), maxlen=2, entries=["EOI", "a"])
    e2 = dict(id="odd2", text='a = @{ "a"* ~ EOI }\nb = { !EOI ~ ANY ~ EOI }', alphabet=cps("a "), maxlen=2, entries=["EOI", "a", "b"])
    # line terminators inside atomic rules (which only check): CRLF must be one NEWLINE on both paths
    e3 = dict(id="odd3", text='line = @{ (!NEWLINE ~ ANY)* ~ NEWLINE }\nfile = { SOI ~ line* ~ EOI }\nnl2 = @{ "x" ~ NEWLINE }\nnl3 = ${ "x" ~ NEWLINE ~ "y"? }\n'
                              'nl4 = { "x" ~ !NEWLINE ~ ANY }\nnl5 = @{ ("x" | NEWLINE){2} }\nnl6 = { (nl2 | "x" ~ "\\r")+ }',
              alphabet=[120, 13, 10, 121], maxlen=3 if tier == "quick" else 4,
              inputs=[cps(x) for x in ["ab\r\ncd\r\n", "ab\ncd\r\n\r\n", "x\r\ny", "x\r\n", "\r\n\r\n", "ab\rcd\n", "x\r\nx\rx\n", "x\rx\r\n"]])
    # a repetition reached on the check path (atomic caller, negative predicate, check API) skips only *between* its elements
    e4 = dict(id="odd4", text='WHITESPACE = _{ " " }\nitem = { \'a\'..\'c\' }\ntail = !{ item* }\nmain = @{ "x" ~ tail }\nneg = { !(item* ~ "!") ~ ANY* }\n'
                              'cnt = !{ item{2} ~ item+ }\nmain2 = ${ "x" ~ cnt? ~ ANY* }\nlead = { item* ~ "!" }',
              alphabet=cps("xa !"), maxlen=3 if tier == "quick" else 4,
              inputs=[cps(x) for x in ["x a b", "xa b", " a!", " a b !", "a b!", "x a b c", "xa b c", " a", "  !", "x  a", "x"]])
    # user rules named like Unicode built-ins keep the atomicity they inherit (they are ordinary rules)
    e5 = dict(id="odd5", text='WHITESPACE = _{ " " }\nNUMBER = { ASCII_DIGIT+ ~ ("." ~ ASCII_DIGIT+)? }\nLETTER = _{ "a" ~ "b"* }\ntok = @{ NUMBER }\nctok = ${ LETTER ~ NUMBER? }\n'
                              'ntok = { NUMBER ~ LETTER }\nthr = @{ mid ~ "!"? }\nmid = { NUMBER ~ LETTER? }\nSYMBOL = !{ "+" ~ "-"* }\nstok = @{ SYMBOL ~ NUMBER }\nASCII_DIGIT = { \'0\'..\'1\' }\nNEWLINE = _{ "." ~ "." }\nln = @{ (!NEWLINE ~ ANY)* ~ NEWLINE? }',
              alphabet=cps("1.a +"), maxlen=3 if tier == "quick" else 4,
              inputs=[cps(x) for x in ["1 . 5", "1.5", "1 .5", "a b 1", "ab1", "a b", "1 a b", "1.5 a", "1 . 5!", "1 a !", "+ - 1", "+-1", "+ -1 . 2", "1 1"]],
              entries=["NUMBER", "tok", "ctok", "ntok", "thr", "mid", "stok", "ln", "ASCII_DIGIT"])
    return [g, e1, e2, e3, e4, e5]


def fam_memo(tier):
    """The same rule tried again at the same offset after a failed attempt, under another stack / another atomicity: the second try
    must be made afresh (a failed attempt leaves no trace, not even a remembered verdict). tail rules are stack-dependent, a
    sub-rule fails further right than the start of the tail so that the retry lies behind the furthest failure."""
    out = []
    tails = ['POP ~ bang', 'PEEK ~ bang', 'PEEK_ALL ~ bang', 'PEEK[0..1] ~ bang', 'PEEK[-1..] ~ "b"? ~ bang', 'DROP ~ ("ab" ~ bang | "b" ~ "!" ~ "!")']
    kinds = ["normal", "atomic", "compound", "nonatomic", "normal", "compound"]
    cons = [('((PUSH("a") ~ "b" ~ %s) | (PUSH("ab") ~ %s))', "normal"), ('(PUSH("a") ~ "b" ~ %s)? ~ PUSH("ab") ~ %s', "normal"),
            ('(PUSH("a") ~ "b" ~ %s)* ~ PUSH("ab") ~ %s', "compound"), ('!(PUSH("a") ~ "b" ~ %s) ~ PUSH("ab") ~ %s', "normal"),
            ('(&(PUSH("a") ~ "b" ~ %s))? ~ PUSH("ab") ~ %s', "normal"), ('PUSH("a") ~ ("b" ~ %s | DROP ~ "b" ~ PUSH("ab") ~ %s)', "normal"),
            ('(PUSH("a") ~ "b" ~ %s | PUSH("a") ~ PUSH("b") ~ %s ~ DROP?) ~ ANY*', "atomic"),
            # same rule, same offset, other atomicity / other skipping context
            ('(atm | PUSH("ab") ~ %s)', "normal")]
    for ti, t in enumerate(tails):
        lines = [rule("tail", t, kinds[ti]), rule("bang", '"!"', "normal"), rule("atm", 'PUSH("a") ~ "b" ~ tail ~ "?"', "atomic")]
        if ti % 2:
            lines.append(WS_SP)
        for k, (c, kd) in enumerate(cons):
            lines.append(rule("r%d" % k, c.replace("%s", "tail"), kd))
        g = dict(id="mm%d" % ti, text="\n".join(lines), alphabet=cps("ab! "), maxlen=0, entries=["r%d" % k for k in range(len(cons))])
        ins = set()
        for pre in ["ab", "a b", "abab", "ab ab", "a", "b", ""]:
            for mid in ["ab", "a", "b", "abb", "", "ab ", " ab", "ba"]:
                for suf in ["!", "", "!!", " !", "b!", "?", "!?", "a!"]:
                    ins.add(pre + mid + suf)
        g["inputs"] = [cps(s) for s in sorted(ins)]
        out.append(g)
    read = peg.pest_read(out, "mm_f")
    return [g for g, r in zip(out, read) if r.get("valid")]


def fam_long(tier):
    """Failures far to the right on lines with multi-byte characters (columns 30..70, after line breaks and tabs): the error
    report is built from line / column arithmetic on such lines and must neither panic nor point elsewhere. Failures are
    reported where a *rule* failed, so the tail is a rule of its own."""
    text = "\n".join(['it = { "é" | "a" | "中" | "😀" | "\t" }', 'bang = { "!" }', 'r0 = { it* ~ bang }', 'r1 = ${ it* ~ bang }', 'r2 = { (it ~ NEWLINE?)* ~ bang }',
                      'r3 = { (!"?" ~ ANY)* ~ bang }', 'r4 = @{ (it | NEWLINE)* ~ "?" ~ bang }'])
    ins = []
    for k in (30, 32, 33, 34, 35, 40, 64, 65):
        for unit in ("é", "中", "😀", "aé", "a"):
            ins.append(unit * k + "?")
            ins.append("a" + unit * k + "?")
    for k in (31, 33, 34, 36):
        ins.append("é\n" + "é" * k + "?")
        ins.append("éa" * 3 + "\r\n" + "中" * k + "?")
        ins.append("é\n" + "\t中" * (k // 2) + "?")
        ins.append("é" * k + "\n?")
    g = dict(id="lg0", text=text, alphabet=[233, 97], maxlen=1, inputs=[cps(x) for x in ins], entries=["r0", "r1", "r2", "r3", "r4"])
    return [g]


def fam_trig(tier):
    """One compact grammar with the triggers that independent seeded changes kept hitting (pop-then-push inside a failed attempt,
    nested optionals that pop, zero-width iterations that change the stack, CRLF under an atomic rule, a repetition reached on the
    check path, failures far right on multi-byte lines): part of every machine-based check, so that a slip in shared machinery is
    seen whichever property's check happens to run."""
    lines = ['WHITESPACE = _{ " " }', 'e = { "a"? }', 'p = { POP }', 'it = { "é" | "a" | "😀" }', 'bang = { "!" }',
             't1 = { PUSH("a") ~ (DROP ~ PUSH("b") ~ "!")? ~ POP ~ ANY* }',
             't2 = { PUSH("a") ~ PUSH("b"?) ~ (POP? ~ "x")? ~ PEEK_ALL }',
             't3 = { PUSH(e) ~ PUSH(e) ~ p* ~ "b"? }',
             't4 = ${ PUSH("a") ~ PUSH("") ~ DROP* ~ "b"? }',
             't5 = @{ "x" ~ NEWLINE ~ "y"? }',
             't6 = { it* ~ bang }',
             't7 = !{ it* }', 't8 = @{ "x" ~ t7 ~ bang? }',
             't9 = { !(it* ~ "!") ~ ANY* }',
             't10 = { PUSH("a") ~ ("b" ~ tl | DROP ~ "b" ~ PUSH("ab") ~ tl) }', 'tl = { PEEK ~ bang }',
             't11 = { it{2} ~ it+ ~ bang? }',
             # slices whose normalised bounds come out reversed for some stack depths: an empty match, not an error and not a panic
             't12 = { PUSH(it)+ ~ "-" ~ PEEK[1..-1] ~ ANY* }', 't13 = ${ PUSH(it) ~ PUSH(it)? ~ PUSH(it)? ~ "-" ~ PEEK[-1..1] ~ "!"? }', 't14 = { PUSH(it){,2} ~ PEEK[2..1] ~ bang }',
             # a silent entry rule that fails before any named rule is tried
             't15 = _{ "a" ~ "b" ~ it }']
    ins = ["ab!a", "aba", "aa", "ab", "abx", "ax", "abba", "aba ", "b", "", "aab", "a b", "x\r\ny", "x\r\n", "x\ny", "x\r", "x a é", "xaé!", "x  a", " a!", " aé !", "aé😀!", "a a a",
           "a a a a!", "aa a", "abab!", "ab a!", "abb!", "é" * 34 + "?", "a" + "😀" * 33 + "?", "é" * 20 + "\n" + "😀" * 34 + " ?",
           "a-.", "a-a", "aa-a", "aaa-a!", "aé-é", "a a-", "a-", "aa-", "aaa-!", "aa!", "a!", "!", "x", "ax", "abé", "ab"]
    g = dict(id="tg0", text="\n".join(lines), alphabet=cps("ab! x"), maxlen=2 if tier == "quick" else 3, inputs=[cps(x) for x in ins],
             entries=["t1", "t2", "t3", "t4", "t5", "t6", "t8", "t9", "t10", "t11", "t12", "t13", "t14", "t15"])
    # an implicit skip with a net stack effect: a sequence of terminals only still touches the stack through the skip it runs
    # between them, so abandoning it (alternative, optional, predicate, iteration) must put the stack back
    l2 = ['WHITESPACE = _{ PUSH(" ") }', 'w1 = { ("a" ~ "b" | ANY ~ "c") ~ DROP ~ !DROP }', 'w2 = { ("a" ~ "b")? ~ "a" ~ "c" ~ DROP ~ !DROP }',
          'w3 = { !("a" ~ "b") ~ "a" ~ "c" ~ DROP ~ !DROP }', 'w4 = { &("a" ~ "c") ~ "a" ~ "c" ~ DROP ~ !DROP }', 'w5 = { ("a" ~ "b")* ~ "a" ~ "c" ~ POP_ALL }',
          'w6 = ${ "a" ~ wn? ~ PEEK_ALL ~ "c" }', 'wn = !{ "a" ~ "b" }']
    g2 = dict(id="tg1", text="\n".join(l2), alphabet=cps("abc "), maxlen=3 if tier == "quick" else 4,
              inputs=[cps(x) for x in ["a c", "a b", "a  c", "a ba c", "a b a c ", "a b a c  ", "aa c c", "aa b c", "a c ", "a  c ", "ac", "a ca c"]],
              entries=["w1", "w2", "w3", "w4", "w5", "w6"])
    return [g, g2]


def fam_rawkinds(tier):
    """rule kinds around counted repetitions and e+, for the raw-AST path (pest_optimizer = false: RepeatMinMax / RepeatMin<_,1>
    nodes carry their own SKIP argument): a `!` rule switches implicit skipping back on inside `@` / `$` callers, directly and
    through normal / silent rules; atomic and compound rules keep it off."""
    lines = ['WHITESPACE = _{ " " }', 'x = { "x" }', 'e = !{ x{2} }', 'e2 = !{ x{1,2} ~ "." }', 'e3 = !{ x+ ~ "." }', 'e4 = !{ x{,2} ~ "." }', 'e5 = !{ x{2,} }',
             'c = ${ "[" ~ e ~ "]" }', 'a = @{ "[" ~ e2 ~ "]" }', 'n = ${ "[" ~ mid ~ "]" }', 'mid = { e3 }', 's = @{ "[" ~ sil ~ "]" }', 'sil = _{ e4 | e5 }',
             'top = { "[" ~ e ~ "]" }', 'atm = @{ x{2} ~ "."? }', 'cmpd = ${ x{2} ~ e? }', 'nrm = { x{2,3} ~ c? }']
    g = dict(id="rk0", text="\n".join(lines), alphabet=cps("x [."), maxlen=3 if tier == "quick" else 4, opts={"pest_optimizer": False},
             inputs=[cps(t) for t in ["[x x]", "[xx]", "[x x.]", "[ x x ]", "[x  x x.]", "[xx.]", "x x", "xx.", "[x x x]", "[x x .]", "xx x x", "x x[x x]", "xx[xx]", "[x.]", "[ x.]", "[.]", "[ .]"]],
             entries=["e", "e2", "e3", "c", "a", "n", "s", "top", "atm", "cmpd", "nrm"])
    return [g]
