"""Family `ill`: deliberately ill-formed grammars, near-misses, and seeded mutations of valid grammars (C11).
Grammars are built as python ASTs and rendered BOTH to .pest text and to the JSON AST the specification reads
(pest cannot hand out the AST of a grammar it rejects); on every grammar pest accepts the rendering is
cross-checked against pest2json's source AST."""
import random
from vcommon import *

S = lambda s: ("str", s)
C = lambda n: ("call", n)
SEQ = lambda *xs: ("seq", xs[0], SEQ(*xs[1:])) if len(xs) > 2 else ("seq", xs[0], xs[1])
ALT = lambda *xs: ("alt", xs[0], ALT(*xs[1:])) if len(xs) > 2 else ("alt", xs[0], xs[1])
OPT = lambda e: ("opt", e)
STAR = lambda e: ("rep", "rep", e, 0, -1)
PLUS = lambda e: ("rep", "reponce", e, 1, -1)
EXACT = lambda e, n: ("rep", "repexact", e, n, n)
MIN = lambda e, n: ("rep", "repmin", e, n, -1)
MAX = lambda e, m: ("rep", "repmax", e, 0, m)
MINMAX = lambda e, n, m: ("rep", "repminmax", e, n, m)
POS = lambda e: ("pos", e)
NEG = lambda e: ("neg", e)
PUSH = lambda e: ("push", e)
RNG = lambda a, b: ("range", a, b)


def text(e):
    t = e[0]
    if t == "str":
        return '"%s"' % e[1]
    if t == "insens":
        return '^"%s"' % e[1]
    if t == "range":
        return "'%s'..'%s'" % (e[1], e[2])
    if t == "call":
        return e[1]
    if t == "seq":
        return "(%s ~ %s)" % (text(e[1]), text(e[2]))
    if t == "alt":
        return "(%s | %s)" % (text(e[1]), text(e[2]))
    if t == "opt":
        return "(%s)?" % text(e[1])
    if t == "rep":
        k, x, n, m = e[1], e[2], e[3], e[4]
        suf = {"rep": "*", "reponce": "+", "repexact": "{%d}" % n, "repmin": "{%d,}" % n, "repmax": "{,%d}" % m, "repminmax": "{%d,%d}" % (n, m)}[k]
        return "(%s)%s" % (text(x), suf)
    if t == "pos":
        return "&(%s)" % text(e[1])
    if t == "neg":
        return "!(%s)" % text(e[1])
    if t == "push":
        return "PUSH(%s)" % text(e[1])
    if t == "peekslice":
        return "PEEK[%s..%s]" % (e[1], "" if e[2] is None else e[2])
    raise ValueError(e)


def js(e):
    t = e[0]
    if t in ("str", "insens"):
        return {"t": t, "s": cps(e[1])}
    if t == "range":
        return {"t": "range", "lo": ord(e[1]), "hi": ord(e[2])}
    if t == "call":
        return {"t": "call", "n": e[1]}
    if t in ("seq", "alt"):
        xs = [js(e[1])]
        r = js(e[2])
        xs += r["xs"] if r["t"] == t else [r]      # flatten the right spine only (like walk!)
        return {"t": t, "xs": xs}
    if t in ("opt", "pos", "neg", "push"):
        return {"t": t, "e": js(e[1])}
    if t == "rep":
        return {"t": "rep", "k": e[1], "e": js(e[2]), "min": e[3], "max": e[4]}
    if t == "peekslice":
        return {"t": "peekslice", "a": e[1], "hasb": e[2] is not None, "b": e[2] or 0}
    raise ValueError(e)


KSYM = {"normal": "", "silent": "_", "atomic": "@", "compound": "$", "nonatomic": "!"}


def gram(gid, rules):
    """rules: list of (name, kind, ast)"""
    return {"id": gid, "text": "\n".join("%s = %s{ %s }" % (n, KSYM[k], text(e)) for n, k, e in rules),
            "rules": [{"name": n, "ty": k, "expr": js(e)} for n, k, e in rules], "ast": rules}


def hand():
    a, b, x = S("a"), S("b"), C("x")
    E = S("")
    out = []
    add = lambda *rules: out.append(list(rules))
    N = "normal"
    # left recursion
    add(("r", N, SEQ(C("r"), a)))
    add(("r", N, SEQ(C("s"), a)), ("s", N, C("r")))
    add(("r", N, SEQ(C("s"), a)), ("s", "silent", ALT(b, C("r"))))
    add(("r", N, SEQ(OPT(a), C("r"))))
    add(("r", N, SEQ(E, C("r"))))
    add(("r", N, SEQ(STAR(a), C("r"), b)))
    add(("r", N, SEQ(POS(a), C("r"))))            # accepted by pest (lhs can fail), yet never terminates on "a..."
    add(("r", N, SEQ(NEG(a), C("r"))))
    add(("r", N, PUSH(C("r"))))
    add(("r", N, SEQ(PUSH(E), C("r"))))
    add(("r", N, OPT(C("r"))))
    add(("r", N, STAR(SEQ(C("r"), a))))
    add(("r", N, PLUS(C("r"))))
    add(("r", N, EXACT(C("r"), 2)))               # counted repetitions are not descended by pest: accepted
    add(("r", N, MIN(C("r"), 1)))
    add(("r", N, SEQ(MAX(a, 2), C("r"))))
    add(("r", N, ALT(a, SEQ(C("r"), b))))
    add(("r", N, ALT(SEQ(a, C("r")), b)))         # right recursion: fine
    add(("r", N, SEQ(a, OPT(C("r")))))
    add(("r", "atomic", SEQ(C("s"), a)), ("s", "compound", SEQ(OPT(b), C("t"))), ("t", "nonatomic", ALT(C("r"), a)))
    add(("r", N, SEQ(C("s"), a)), ("s", N, SEQ(b, C("r"))))
    add(("r", N, POS(C("r"))))
    add(("r", N, NEG(C("r"))))
    # repetitions
    for body in [E, OPT(a), NEG(a), POS(a), STAR(a), C("SOI"), C("EOI"), ALT(a, E), ALT(E, a), C("q"), PUSH(OPT(a)), EXACT(a, 0), MAX(a, 2), MINMAX(a, 0, 2),
                 SEQ(OPT(a), OPT(b)), SEQ(OPT(a), b), SEQ(NEG(a), C("ANY")), MINMAX(a, 1, 2), PUSH(a), SEQ(POS(a), NEG(b)), C("PEEK"), C("DROP"), ("peekslice", 0, None), a]:
        for mk in (STAR, PLUS, lambda e: MIN(e, 2)):
            add(("r", N, SEQ(mk(body), b)), ("q", "silent", OPT(a)))
    for body in [E, OPT(a)]:
        for mk in (lambda e: EXACT(e, 2), lambda e: MAX(e, 2), lambda e: MINMAX(e, 1, 2)):
            add(("r", N, SEQ(mk(body), b)))      # bounded repetitions of unfailing bodies: accepted
    # choices
    for first in [OPT(a), E, STAR(a), C("q"), EXACT(a, 0), POS(OPT(a)), PUSH(E), NEG(a), a, SEQ(OPT(a), OPT(b))]:
        add(("r", N, ALT(first, b)), ("q", "silent", OPT(a)))
        add(("r", N, ALT(b, first)), ("q", "silent", OPT(a)))
        add(("r", N, ALT(b, first, a)), ("q", "silent", OPT(a)))
        add(("r", N, SEQ(a, ALT(ALT(b, first), a))), ("q", "silent", OPT(a)))
    # WHITESPACE / COMMENT
    for nm in ("WHITESPACE", "COMMENT"):
        for body in [E, OPT(a), STAR(a), C("SOI"), NEG(a), POS(a), ALT(a, E), S(" "), SEQ(S("#"), OPT(a)), PLUS(S(" ")), C("q")]:
            for kind in ("silent", "normal", "atomic"):
                add((nm, kind, body), ("r", N, SEQ(a, b)), ("q", "silent", OPT(a)))
    return out


def mutate(rnd, e, depth=0):
    """seeded mutation of a valid expression: wrap / replace sub-expressions so that some become ill-formed"""
    t = e[0]
    if rnd.random() < 0.18:
        c = rnd.randrange(7)
        if c == 0:
            return OPT(e)
        if c == 1:
            return STAR(e)
        if c == 2:
            return S("")
        if c == 3:
            return ALT(e, S(""))
        if c == 4:
            return ALT(OPT(e), S("b"))
        if c == 5:
            return C("r0")
        return NEG(e)
    if t in ("seq", "alt"):
        return (t, mutate(rnd, e[1], depth + 1), mutate(rnd, e[2], depth + 1))
    if t in ("opt", "pos", "neg", "push"):
        return (t, mutate(rnd, e[1], depth + 1))
    if t == "rep":
        return ("rep", e[1], mutate(rnd, e[2], depth + 1), e[3], e[4])
    return e


def rand_ast(rnd, depth, names):
    if depth == 0 or rnd.random() < 0.3:
        c = rnd.random()
        if names and c < 0.3:
            return C(rnd.choice(names))
        return rnd.choice([S("a"), S("b"), S("ab"), RNG("a", "b"), C("ANY"), C("ASCII_DIGIT")])
    c = rnd.randrange(10)
    sub = lambda: rand_ast(rnd, depth - 1, names)
    if c < 3:
        return ("seq", sub(), sub())
    if c < 5:
        return ("alt", sub(), sub())
    if c == 5:
        return OPT(sub())
    if c == 6:
        return STAR(sub())
    if c == 7:
        return rnd.choice([PLUS, lambda e: EXACT(e, 2), lambda e: MIN(e, 1), lambda e: MAX(e, 2), lambda e: MINMAX(e, 1, 2)])(sub())
    if c == 8:
        return rnd.choice([POS, NEG])(sub())
    return PUSH(sub())


def fam_ill(tier, seed):
    grams = []
    for i, rules in enumerate(hand()):
        grams.append(gram("il%d" % i, rules))
    rnd = random.Random("ill/%s" % seed)
    n = 150 if tier == "quick" else 1200
    for i in range(n):
        names = ["r0", "r1", "r2"]
        rules = []
        for k, nm in enumerate(names):
            e = rand_ast(rnd, rnd.choice([1, 2, 3]), names[k + 1:])
            if rnd.random() < 0.6:
                e = mutate(rnd, e)
            rules.append((nm, rnd.choice(list(KSYM)), e))
        grams.append(gram("im%d" % i, rules))
    return grams
