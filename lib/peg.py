"""Pipeline for the parser properties: corpus -> TLC (spec/MC_Peg) -> runner on the real code -> compare."""
import os, json, re, time, subprocess, threading, shutil
from vcommon import *
import famgen

PEST2JSON = None


def ensure_pest2json():
    global PEST2JSON
    if PEST2JSON is None:
        famgen.sync_workspace()
        p, b = build_bin("pest2json")
        if p.returncode != 0:
            raise ToolError("pest2json build failed:\n" + (p.stdout or "")[-3000:])
        PEST2JSON = b
    return PEST2JSON


def tmpdir(tag):
    d = os.path.join(BUILD, "work", tag)
    os.makedirs(d, exist_ok=True)
    return d


def pest_read(grams, tag):
    """grams: list of dict(id, text, cands). Returns pest_meta's reading per grammar."""
    d = tmpdir(tag)
    spec = {"grammars": [{"id": g["id"], "text": g["text"], "cands": g.get("cands", [])} for g in grams]}
    sp = os.path.join(d, "p2j_spec.json")
    json.dump(spec, open(sp, "w"))
    p = sh([ensure_pest2json(), sp], check=False)
    if p.returncode != 0:
        raise ToolError("pest2json failed: " + (p.stdout or "")[-2000:])
    # stdout may be polluted by stderr (merged); take last line
    line = [l for l in p.stdout.splitlines() if l.startswith('{"grammars"')][-1]
    return json.loads(line)["grammars"]


def default_alphabet(text, extra=" "):
    return sorted(set(ord(c) for c in text))


def make_corpus(grams, tag):
    """grams: list of dict(id, text, alphabet:[cp], maxlen, inputs:[[cp]] (optional extra), ctxs, entries(optional)).
    Writes the corpus JSON for TLC; returns (path, corpus)."""
    for g in grams:
        cs = set(g.get("alphabet", [])) | {97, 98, 99, 32, 35, 233, 20013, 128512, 10, 13, 9, 48, 49, 65, 90, 122, 57}
        for x in g.get("inputs", []) + g.get("long_inputs", []):
            cs |= set(x)
        for a, b in g.get("ctxs", []):
            cs |= set(a) | set(b)
        g["cands"] = sorted(cs)
    read = pest_read(grams, tag)
    out = []
    for g, r in zip(grams, read):
        if not r.get("valid"):
            raise ToolError("corpus grammar %s rejected by pest: %s\n%s" % (g["id"], r.get("errors"), g["text"]))
        inputs = []
        seen = set()
        for s in all_strings(g["alphabet"], g.get("maxlen", 3)) + [list(x) for x in g.get("inputs", [])]:
            t = tuple(s)
            if t not in seen:
                seen.add(t)
                inputs.append(list(s))
        r["inputs"] = inputs
        r["ctxs"] = g.get("ctxs", [[[], []]])
        names = [x["name"] for x in r["rules_opt"]]
        r["entries"] = g.get("entries", names)
        r["rule_names"] = names
        r["kinds"] = {x["name"]: x["ty"] for x in r["rules_opt"]}
        out.append(r)
    d = tmpdir(tag)
    path = os.path.join(d, "corpus.json")
    json.dump({"grammars": out}, open(path, "w"))
    return path, out


_B = re.compile(r'^<<"B", "(.*)">>$')


def _unescape(s):
    return re.sub(r'\\(.)', lambda m: m.group(1), s)


def run_tlc(corpus_path, tag, cfg="MC_Peg.cfg", module="MC_Peg.tla", emit="core", ast="opt", dev="",
            workers=12, timeout=3600, extra_env=None, extra_args=None):
    d = tmpdir(tag)
    md = os.path.join(d, "tlc_md_%s_%s_%s" % (ast, dev or "nodev", os.path.basename(cfg)))
    shutil.rmtree(md, ignore_errors=True)
    env = {"VERIF_CORPUS": corpus_path, "VERIF_EMIT": emit, "VERIF_AST": ast, "VERIF_DEV": dev,
           "JAVA_TOOL_OPTIONS": "-Xss256m -XX:+UseParallelGC"}
    if extra_env:
        env.update(extra_env)
    t0 = time.time()
    cmd = ["timeout", str(timeout), "tlc", "-workers", str(workers), "-metadir", md, "-cleanup", "-noGenerateSpecTE",
           "-config", cfg] + (extra_args or []) + [module]
    outp = os.path.join(d, "tlc_%s_%s_%s.out" % (ast, dev or "nodev", os.path.basename(cfg)))
    with open(outp, "w") as fo:
        e = dict(os.environ)
        e.update(env)
        rc = subprocess.run(cmd, cwd=SPEC, env=e, stdout=fo, stderr=subprocess.STDOUT).returncode
    recs = []
    other = []
    with open(outp) as fi:
        for line in fi:
            line = line.rstrip("\n")
            m = _B.match(line)
            if m:
                recs.append(json.loads(_unescape(m.group(1))))
            else:
                other.append(line)
    shutil.rmtree(md, ignore_errors=True)
    text = "\n".join(other)
    stats = {"rc": rc, "wall_s": round(time.time() - t0, 2), "out": outp}
    m = re.search(r"(\d+) states generated, (\d+) distinct states found", text)
    if m:
        stats["transitions"] = int(m.group(1))
        stats["states"] = int(m.group(2))
    m = re.search(r"depth of the complete state graph search is (\d+)", text)
    if m:
        stats["depth"] = int(m.group(1))
    m = re.search(r"(\d+) distinct states generated", text)
    if m:
        stats["init_states"] = int(m.group(1))
    stats["ok"] = "Model checking completed. No error has been found." in text
    if not stats["ok"]:
        stats["tail"] = "\n".join(l for l in other if not l.startswith(("Parsing", "Semantic", "Linting")))[-6000:]
    return recs, stats


def expand_refs(obs):
    """Undo the runner's back-references ("=form.key")."""
    t = obs.get("t")
    if not isinstance(t, dict):
        return obs
    for form, fm in t.items():
        if not isinstance(fm, dict):
            continue
        for k, v in list(fm.items()):
            if isinstance(v, str) and v.startswith("="):
                f2, k2 = v[1:].split(".", 1)
                fm[k] = t[f2][k2]
    return obs


def run_runner(binp, jobs, procs=14, job_timeout_ms=20000):
    """jobs: list of dicts with idx. Returns dict idx -> obs (or {"crash":..}/{"timeout":True})."""
    results = {}
    lock = threading.Lock()
    chunks = [jobs[i::procs] for i in range(procs)]

    def work(chunk):
        pending = list(chunk)
        while pending:
            p = subprocess.Popen([binp], stdin=subprocess.PIPE, stdout=subprocess.PIPE, stderr=subprocess.DEVNULL,
                                 text=True, env=dict(os.environ, VERIF_JOB_TIMEOUT_MS=str(job_timeout_ms), RUST_BACKTRACE="0"))
            data = "".join(json.dumps(j) + "\n" for j in pending)
            try:
                out, _ = p.communicate(data)
            except Exception as e:  # pragma: no cover
                out = ""
            done = set()
            for line in out.splitlines():
                try:
                    v = json.loads(line)
                except ValueError:
                    continue
                with lock:
                    if v.get("timeout"):
                        results[v["idx"]] = {"timeout": True}
                    else:
                        results[v["idx"]] = expand_refs(v["obs"])
                done.add(v["idx"])
            rest = [j for j in pending if j["idx"] not in done]
            if not rest:
                break
            if p.returncode == 0 and len(rest) == len(pending):
                raise ToolError("runner produced no output")
            if p.returncode != 0 and not any(results.get(j["idx"], {}).get("timeout") for j in pending if j["idx"] in done):
                # died (abort / stack overflow) while executing the first unfinished job
                with lock:
                    results[rest[0]["idx"]] = {"crash": p.returncode}
                rest = rest[1:]
            pending = rest

    ths = [threading.Thread(target=work, args=(c,)) for c in chunks if c]
    errs = []

    def guarded(c):
        try:
            work(c)
        except Exception as e:
            errs.append(e)
    ths = [threading.Thread(target=guarded, args=(c,)) for c in chunks if c]
    for t in ths:
        t.start()
    for t in ths:
        t.join()
    if errs:
        raise errs[0]
    return results
