"""Per-property checks. Each returns via run_* an exit status; evidence is written on every run."""
import os, sys, json, time, hashlib, random
from vcommon import *
import peg, famgen, families

REPLAY_DIR = os.path.join(VERIF, "replay")
EVID_DIR = os.path.join(VERIF, "evidence")


def load_known():
    p = os.path.join(VERIF, "known_findings.json")
    if os.path.exists(p):
        return json.load(open(p))
    return []


class Ctx:
    def __init__(self, prop, tier, seed):
        self.prop, self.tier, self.seed = prop, tier, seed
        self.t0 = time.time()
        self.violations = []      # dicts
        self.known_hits = {}      # finding title -> count
        self.cov = {"evaluations": 0, "distinct_nontrivial": 0, "states": 0, "transitions": 0,
                    "traces_validated_against_impl": 0, "samples": []}
        self.assumptions = []
        self.notes = {}

    def add_stats(self, st):
        self.cov["states"] += st.get("states", 0)
        self.cov["transitions"] += st.get("transitions", 0)

    def violation(self, what, replay):
        h = hashlib.sha1(json.dumps(replay, sort_keys=True).encode()).hexdigest()[:12]
        os.makedirs(REPLAY_DIR, exist_ok=True)
        path = os.path.join(REPLAY_DIR, "%s-%s.json" % (self.prop, h))
        replay = dict(replay)
        replay["property"] = self.prop
        replay["what"] = what
        json.dump(replay, open(path, "w"), indent=1, ensure_ascii=False)
        self.violations.append({"what": what, "replay": path})

    def finish(self, level="model_checking", rule="", extra=None):
        cov = dict(self.cov)
        cov["rule"] = rule
        if extra:
            cov.update(extra)
        cov.update(self.notes)
        if not cov["samples"]:
            cov["samples"] = ["(none)"]
        ev = {"property_id": self.prop, "tier": self.tier, "seed": self.seed, "level": level, "coverage": cov,
              "assumptions": self.assumptions, "wall_s": round(time.time() - self.t0, 2),
              "violations": len(self.violations), "known_findings_hit": self.known_hits}
        os.makedirs(EVID_DIR, exist_ok=True)
        json.dump(ev, open(os.path.join(EVID_DIR, self.prop + ".json"), "w"), indent=1, ensure_ascii=False)
        for k, n in sorted(self.known_hits.items()):
            print("KNOWN-FINDING: property=%s %s (%d behaviours on this run)" % (self.prop, k, n))
        shown = set()
        for v in self.violations[:20]:
            print("VIOLATION property=%s replay=%s  # %s" % (self.prop, v["replay"], v["what"]))
        if len(self.violations) > 20:
            print("... %d more violations (see %s)" % (len(self.violations) - 20, REPLAY_DIR))
        print("%s %s: %d evaluations on the implementation, %d TLC states, %d violations, %.1fs" % (
            self.prop, self.tier, cov["evaluations"], cov["states"], len(self.violations), time.time() - self.t0))
        return 1 if self.violations else 0


# ------------------------------------------------------------------------------------------------
def model_and_impl(ctx, tag, grams, modes, emit="core", ast="opt", dev="", with_pest=True, profile="dev", tlc_cfg="MC_Peg.cfg",
                   famname=None, need_impl=True):
    """Run TLC on the corpus, then the real code on every terminated behaviour. Returns list of (rec, job, obs, gram)."""
    path, corpus = peg.make_corpus(grams, tag)
    recs, st = peg.run_tlc(path, tag, cfg=tlc_cfg, emit=emit, ast=ast, dev=dev, workers=int(os.environ.get("VERIF_TLC_WORKERS", "12")))
    if not st["ok"]:
        raise ToolError("TLC did not complete cleanly on %s (rc=%s):\n%s" % (tag, st.get("rc"), st.get("tail", "")[-3000:]))
    ctx.add_stats(st)
    ctx.notes.setdefault("tlc_runs", []).append({"tag": tag, "states": st.get("states"), "behaviours": len(recs), "depth": st.get("depth"), "wall_s": st["wall_s"], "ast": ast, "dev": dev})
    byid = {c["id"]: c for c in corpus}
    gtext = {g["id"]: g for g in grams}
    jobs = []
    ndiv = 0
    for r in recs:
        if r["pc"] != "done":
            ndiv += 1
            continue
        c = byid[r["g"]]
        jobs.append({"idx": len(jobs), "g": r["g"], "rule": r["rule"], "inp": c["inputs"][r["ii"] - 1],
                     "pre": c["ctxs"][r["ci"] - 1][0], "post": c["ctxs"][r["ci"] - 1][1], "modes": modes, "_rec": r})
    ctx.notes["model_nonterminating_behaviours"] = ctx.notes.get("model_nonterminating_behaviours", 0) + ndiv
    if not need_impl:
        return [(j["_rec"], j, None, gtext[j["g"]]) for j in jobs], corpus
    for g, c in zip(grams, corpus):
        g["rules"] = c["rule_names"] if not g.get("entries") else g["entries"]
    pkg = famgen.gen_family(famname or tag, grams, with_pest=with_pest)
    binp, errs = famgen.build_family(pkg, profile)
    if binp is None:
        for gid, msg in errs.items():
            ctx.violation("generated code for pest-valid grammar %s does not compile" % gid,
                          {"kind": "compile", "grammar": gtext[gid]["text"], "opts": gtext[gid].get("opts"), "rustc": msg})
        grams2 = [g for g in grams if g["id"] not in errs]
        pkg = famgen.gen_family(famname or tag, grams2, with_pest=with_pest)
        binp, errs2 = famgen.build_family(pkg, profile)
        if binp is None:
            raise ToolError("harness still fails to build after removing %s" % list(errs))
        jobs = [j for j in jobs if j["g"] not in errs]
        for i, j in enumerate(jobs):
            j["idx"] = i
    send = [{k: v for k, v in j.items() if k != "_rec"} for j in jobs]
    res = peg.run_runner(binp, send)
    out = []
    for j in jobs:
        out.append((j["_rec"], j, res.get(j["idx"], {"missing": True}), gtext[j["g"]]))
    ctx.cov["evaluations"] += len(out)
    ctx.cov["traces_validated_against_impl"] += len(out)
    return out, corpus


def replay_of(rec, job, obs, gram, field, exp, got):
    return {"kind": "behaviour", "grammar": gram["text"], "grammar_id": gram["id"], "opts": gram.get("opts"), "rule": job["rule"],
            "input": uncps(job["inp"]), "input_cps": job["inp"], "pre": uncps(job["pre"]), "post": uncps(job["post"]),
            "field": field, "expected": exp, "observed": got}


def nontrivial(rec):
    return (rec.get("ok") and rec.get("end", 0) > 0) or rec.get("trk", {}).get("pos", 0) > 0


def typed_form(obs, form, entry):
    t = obs.get("t")
    if not isinstance(t, dict) or form not in t:
        return None
    return t[form].get(entry)


def is_bad(o):
    return o is None or "panic" in o or o.get("missing")


HAS_STACK = ("PUSH", "POP", "PEEK", "DROP")


def check_pest_witness(ctx, rec, job, obs, gram):
    """pest as witness of the MODEL (never of the code): on stack-free grammars they must agree."""
    p = obs.get("p")
    if not p:
        return
    st = ctx.notes.setdefault("pest_witness", {"agree": 0, "pest_panicked": 0, "stack_grammar_differs": 0, "spec_drift": 0})
    if p.get("panic"):
        st["pest_panicked"] += 1
        return
    same = p["ok"] == rec["ok"] and (not rec["ok"] or p["toks"] == rec["toks"])
    if same:
        st["agree"] += 1
    elif any(k in gram["text"] for k in HAS_STACK):
        st["stack_grammar_differs"] += 1
    else:
        st["spec_drift"] += 1
        ctx.notes.setdefault("spec_drift_samples", [])
        if len(ctx.notes["spec_drift_samples"]) < 5:
            ctx.notes["spec_drift_samples"].append({"grammar": gram["text"], "rule": job["rule"], "input": uncps(job["inp"]), "model": {"ok": rec["ok"], "toks": rec["toks"]}, "pest": p})


class Known:
    """Known findings of one property: a mismatch is attributed to a listed finding only if the model run
    with the finding's named deviation reproduces the implementation's record exactly."""

    def __init__(self, prop):
        self.items = [k for k in load_known() if k["property"] == prop and k["status"] == "known"]

    def deviations(self):
        return sorted({k["explained_by"]["deviation"] for k in self.items if k.get("explained_by")})

    def title_for(self, dev):
        for k in self.items:
            if k.get("explained_by") and k["explained_by"]["deviation"] == dev:
                return k["title"]
        return dev


def key_of(job):
    return (job["g"], job["rule"], tuple(job["inp"]), tuple(job["pre"]), tuple(job["post"]))


def run_generic(ctx, tag, grams, modes, compare, emit="core", ast="opt", with_pest=True, profile="dev", famname=None):
    """compare(rec, job, obs, gram) -> list of (field, expected, observed).  Applies the known-findings policy."""
    rows, corpus = model_and_impl(ctx, tag, grams, modes, emit=emit, ast=ast, with_pest=with_pest, profile=profile, famname=famname)
    mism = []
    for rec, job, obs, gram in rows:
        if nontrivial(rec):
            ctx.cov["distinct_nontrivial"] += 1
        if with_pest and ast == "opt":
            check_pest_witness(ctx, rec, job, obs, gram)
        diffs = compare(rec, job, obs, gram)
        if diffs:
            mism.append((rec, job, obs, gram, diffs))
        if len(ctx.cov["samples"]) < 4 and nontrivial(rec) and rec["ok"]:
            ctx.cov["samples"].append({"grammar": gram["text"][:400], "rule": job["rule"], "input": uncps(job["inp"]),
                                       "model": {"ok": rec["ok"], "end": rec["end"], "ptoks": rec.get("ptoks")}})
    if mism:
        known = Known(ctx.prop)
        explained = set()
        for dev in known.deviations():
            gids = sorted({m[1]["g"] for m in mism})
            sub = [g for g in grams if g["id"] in gids]
            drows, _ = model_and_impl(ctx, tag + "_dev", sub, modes, emit=emit, ast=ast, dev=dev, need_impl=False)
            dmap = {key_of(j): r for r, j, _, _ in drows}
            for i, (rec, job, obs, gram, diffs) in enumerate(mism):
                if i in explained:
                    continue
                drec = dmap.get(key_of(job))
                if drec is not None and not compare(drec, job, obs, gram):
                    explained.add(i)
                    t = known.title_for(dev)
                    ctx.known_hits[t] = ctx.known_hits.get(t, 0) + 1
        for i, (rec, job, obs, gram, diffs) in enumerate(mism):
            if i in explained:
                continue
            f, e, o = diffs[0]
            ctx.violation("%s: %s rule %s input %r: expected %s, observed %s" % (f, gram["id"], job["rule"], uncps(job["pre"]) + "|" + uncps(job["inp"]) + "|" + uncps(job["post"]), json.dumps(e)[:120], json.dumps(o)[:120]),
                          replay_of(rec, job, obs, gram, f, e, o))
    if ctx.notes.get("pest_witness", {}).get("spec_drift"):
        raise ToolError("SPEC-DRIFT: the model disagrees with pest on stack-free grammars: %s" % json.dumps(ctx.notes.get("spec_drift_samples"))[:3000])
    return rows


# ------------------------------------------------------------------------------------------------
# compare functions: decisive fields per property

def cmp_c01(rec, job, obs, gram):
    d = []
    for form in ("str", "pos", "span"):
        pp = typed_form(obs, form, "pp")
        if pp is None:
            continue
        if is_bad(pp):
            d.append((form + ".parse_partial", {"ok": rec["ok"]}, pp))
            continue
        if pp.get("ok") != rec["ok"]:
            d.append((form + ".parse_partial.ok", rec["ok"], pp.get("ok")))
        elif rec["ok"] and pp.get("end") != rec["end"]:
            d.append((form + ".parse_partial.end", rec["end"], pp.get("end")))
        break   # C01 is about the prefix parse; forms are C08's business
    return d


def grams_for(prop, tier, seed):
    q = tier == "quick"
    if prop in ("C01", "C02", "C03", "C09"):
        g = families.fam_ops(tier)
        g += families.fam_rand(tier, seed, 12 if q else 60, "plain")
        g += families.fam_rand(tier, seed, 8 if q else 40, "stack")
        g += families.fam_rand(tier, seed, 8 if q else 40, "ws")
        g += families.fam_rand(tier, seed, 6 if q else 30, "utf8")
        g += families.fam_utf8(tier)
        return g
    raise KeyError(prop)


def check_C01(tier, seed):
    ctx = Ctx("C01", tier, seed)
    grams = grams_for("C01", tier, seed)
    ctx.notes["grammars"] = len(grams)
    run_generic(ctx, "c01", grams, "sP", cmp_c01, famname="main")
    return ctx.finish(rule="one behaviour = (grammar, entry rule, input) of the corpus: every operator alone and in depth-2 compositions under the five rule kinds, with and without WHITESPACE/COMMENT, seeded random grammars (plain / stack / skip / utf8 flavours), all inputs up to the length bound over each grammar's alphabet; TLC runs the machine and checks M1 (machine = denotation), the real try_parse_partial is run on each and verdict + consumed byte offset compared; non-trivial = the model consumed input or the tracker advanced")


CHECKS = {"C01": check_C01}
