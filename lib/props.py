"""Per-property checks. Each returns via run_* an exit status; evidence is written on every run."""
import os, sys, json, time, hashlib, random
from vcommon import *
import peg, famgen, families

REPLAY_DIR = os.path.join(VERIF, "replay")
EVID_DIR = os.path.join(VERIF, "evidence")


def load_known():
    p = os.path.join(VERIF, "known_findings.json")
    if os.path.exists(p):
        return json.load(open(p))
    return []


class Ctx:
    def __init__(self, prop, tier, seed):
        self.prop, self.tier, self.seed = prop, tier, seed
        self.t0 = time.time()
        self.violations = []      # dicts
        self.known_hits = {}      # finding title -> count
        self.cov = {"evaluations": 0, "distinct_nontrivial": 0, "states": 0, "transitions": 0,
                    "traces_validated_against_impl": 0, "samples": []}
        self.assumptions = []
        self.notes = {}

    def add_stats(self, st):
        self.cov["states"] += st.get("states", 0)
        self.cov["transitions"] += st.get("transitions", 0)

    def violation(self, what, replay):
        h = hashlib.sha1(json.dumps(replay, sort_keys=True).encode()).hexdigest()[:12]
        os.makedirs(REPLAY_DIR, exist_ok=True)
        path = os.path.join(REPLAY_DIR, "%s-%s.json" % (self.prop, h))
        if len(self.violations) < 300:      # every violation is counted; replay files are written for the first 300 of a run
            replay = dict(replay)
            replay["property"] = self.prop
            replay["what"] = what
            json.dump(replay, open(path, "w"), indent=1, ensure_ascii=False)
        self.violations.append({"what": what, "replay": path})

    def finish(self, level="model_checking", rule="", extra=None):
        cov = dict(self.cov)
        cov["rule"] = rule
        if extra:
            cov.update(extra)
        cov.update(self.notes)
        if not cov["samples"]:
            cov["samples"] = ["(none)"]
        ev = {"property_id": self.prop, "tier": self.tier, "seed": self.seed, "level": level, "coverage": cov,
              "assumptions": self.assumptions, "wall_s": round(time.time() - self.t0, 2),
              "violations": len(self.violations), "known_findings_hit": self.known_hits}
        os.makedirs(EVID_DIR, exist_ok=True)
        json.dump(ev, open(os.path.join(EVID_DIR, self.prop + ".json"), "w"), indent=1, ensure_ascii=False)
        for k, n in sorted(self.known_hits.items()):
            print("KNOWN-FINDING: property=%s %s (%d behaviours on this run)" % (self.prop, k, n))
        shown = set()
        for v in self.violations[:20]:
            print("VIOLATION property=%s replay=%s  # %s" % (self.prop, v["replay"], v["what"]))
        if len(self.violations) > 20:
            print("... %d more violations (see %s)" % (len(self.violations) - 20, REPLAY_DIR))
        print("%s %s: %d evaluations on the implementation, %d TLC states, %d violations, %.1fs" % (
            self.prop, self.tier, cov["evaluations"], cov["states"], len(self.violations), time.time() - self.t0))
        return 1 if self.violations else 0


# ------------------------------------------------------------------------------------------------
def model_and_impl(ctx, tag, grams, modes, emit="core", ast="opt", dev="", with_pest=True, profile="dev", tlc_cfg="MC_Peg.cfg",
                   famname=None, need_impl=True):
    """Run TLC on the corpus, then the real code on every terminated behaviour. Returns list of (rec, job, obs, gram)."""
    path, corpus = peg.make_corpus(grams, tag)
    recs, st = peg.run_tlc(path, tag, cfg=tlc_cfg, emit=emit, ast=ast, dev=dev, workers=int(os.environ.get("VERIF_TLC_WORKERS", "12")))
    if not st["ok"]:
        raise ToolError("TLC did not complete cleanly on %s (rc=%s):\n%s" % (tag, st.get("rc"), st.get("tail", "")[-3000:]))
    ctx.add_stats(st)
    ctx.notes.setdefault("tlc_runs", []).append({"tag": tag, "states": st.get("states"), "behaviours": len(recs), "depth": st.get("depth"), "wall_s": st["wall_s"], "ast": ast, "dev": dev})
    byid = {c["id"]: c for c in corpus}
    gtext = {g["id"]: g for g in grams}
    jobs = []
    ndiv = 0
    for r in recs:
        if r["pc"] != "done":
            ndiv += 1
            continue
        c = byid[r["g"]]
        jobs.append({"idx": len(jobs), "g": r["g"], "rule": r["rule"], "inp": c["inputs"][r["ii"] - 1],
                     "pre": c["ctxs"][r["ci"] - 1][0], "post": c["ctxs"][r["ci"] - 1][1], "modes": modes, "_rec": r})
    ctx.notes["model_nonterminating_behaviours"] = ctx.notes.get("model_nonterminating_behaviours", 0) + ndiv
    if not need_impl:
        return [(j["_rec"], j, None, gtext[j["g"]]) for j in jobs], corpus
    for g, c in zip(grams, corpus):
        g["rules"] = c["rule_names"] if not g.get("entries") else g["entries"]
    shards = famgen.gen_family(famname or tag, grams, with_pest=with_pest)
    binp, errs = famgen.build_family(shards, profile)
    if binp is None:
        for gid, msg in errs.items():
            ctx.violation("generated code for pest-valid grammar %s does not compile" % gid,
                          {"kind": "compile", "grammar": gtext[gid]["text"], "opts": gtext[gid].get("opts"), "rustc": msg})
        grams2 = [g for g in grams if g["id"] not in errs]
        shards = famgen.gen_family(famname or tag, grams2, with_pest=with_pest)
        binp, errs2 = famgen.build_family(shards, profile)
        if binp is None:
            raise ToolError("harness still fails to build after removing %s" % list(errs))
        jobs = [j for j in jobs if j["g"] not in errs]
        for i, j in enumerate(jobs):
            j["idx"] = i
    send = [{k: v for k, v in j.items() if k != "_rec"} for j in jobs]
    res = run_sharded(binp, shards, send)
    ctx.last_shards = shards
    out = []
    for j in jobs:
        out.append((j["_rec"], j, res.get(j["idx"], {"missing": True}), gtext[j["g"]]))
    ctx.cov["evaluations"] += len(out)
    ctx.cov["traces_validated_against_impl"] += len(out)
    return out, corpus


def run_sharded(bins, shards, send):
    res = {}
    for pkg, gids in shards:
        part = [j for j in send if j["g"] in gids]
        if part:
            res.update(peg.run_runner(bins[pkg], part))
    return res


def replay_of(rec, job, obs, gram, field, exp, got):
    return {"kind": "behaviour", "grammar": gram["text"], "grammar_id": gram["id"], "opts": gram.get("opts"), "rule": job["rule"],
            "input": uncps(job["inp"]), "input_cps": job["inp"], "pre": uncps(job["pre"]), "post": uncps(job["post"]),
            "field": field, "expected": exp, "observed": got}


def nontrivial(rec):
    return (rec.get("ok") and rec.get("end", 0) > 0) or rec.get("trk", {}).get("pos", 0) > 0


def typed_form(obs, form, entry):
    t = obs.get("t")
    if not isinstance(t, dict) or form not in t:
        return None
    return t[form].get(entry)


def is_bad(o):
    return o is None or "panic" in o or o.get("missing")


HAS_STACK = ("PUSH", "POP", "PEEK", "DROP")


def check_pest_witness(ctx, rec, job, obs, gram):
    """pest as witness of the MODEL (never of the code): on stack-free grammars they must agree."""
    p = obs.get("p")
    if not p:
        return
    st = ctx.notes.setdefault("pest_witness", {"agree": 0, "pest_panicked": 0, "stack_grammar_differs": 0, "spec_drift": 0})
    if p.get("panic"):
        st["pest_panicked"] += 1
        return
    same = p["ok"] == rec["ok"] and (not rec["ok"] or p["toks"] == rec["toks"])
    if same:
        st["agree"] += 1
    elif any(k in gram["text"] for k in HAS_STACK):
        st["stack_grammar_differs"] += 1
    else:
        st["spec_drift"] += 1
        ctx.notes.setdefault("spec_drift_samples", [])
        if len(ctx.notes["spec_drift_samples"]) < 5:
            ctx.notes["spec_drift_samples"].append({"grammar": gram["text"], "rule": job["rule"], "input": uncps(job["inp"]), "model": {"ok": rec["ok"], "toks": rec["toks"]}, "pest": p})


class Known:
    """Known findings of one property: a mismatch is attributed to a listed finding only if the model run
    with the finding's named deviation reproduces the implementation's record exactly."""

    def __init__(self, prop):
        self.items = [k for k in load_known() if k["property"] == prop and k["status"] == "known"]

    def deviations(self):
        return sorted({k["explained_by"]["deviation"] for k in self.items if k.get("explained_by")})

    def title_for(self, dev):
        for k in self.items:
            if k.get("explained_by") and k["explained_by"]["deviation"] == dev:
                return k["title"]
        return dev


def key_of(job):
    return (job["g"], job["rule"], tuple(job["inp"]), tuple(job["pre"]), tuple(job["post"]))


def run_generic(ctx, tag, grams, modes, compare, emit="core", ast="opt", with_pest=True, profile="dev", famname=None, use_known=True):
    """compare(rec, job, obs, gram) -> list of (field, expected, observed).  Applies the known-findings policy."""
    rows, corpus = model_and_impl(ctx, tag, grams, modes, emit=emit, ast=ast, with_pest=with_pest, profile=profile, famname=famname)
    mism = []
    for rec, job, obs, gram in rows:
        if nontrivial(rec):
            ctx.cov["distinct_nontrivial"] += 1
        if with_pest and ast == "opt":
            check_pest_witness(ctx, rec, job, obs, gram)
        diffs = compare(rec, job, obs, gram)
        if diffs:
            mism.append((rec, job, obs, gram, diffs))
        if len(ctx.cov["samples"]) < 4 and nontrivial(rec) and rec["ok"]:
            ctx.cov["samples"].append({"grammar": gram["text"][:400], "rule": job["rule"], "input": uncps(job["inp"]),
                                       "model": {"ok": rec["ok"], "end": rec["end"], "ptoks": rec.get("ptoks")}})
    if mism:
        known = Known(ctx.prop)
        explained = set()
        for dev in (known.deviations() if use_known else []):
            gids = sorted({m[1]["g"] for m in mism})
            sub = [g for g in grams if g["id"] in gids]
            if dev.startswith("ast_"):      # the deviation is "the other AST" (pest_optimizer = false translates the source AST)
                drows, _ = model_and_impl(ctx, tag + "_dev", sub, modes, emit=emit, ast=dev[4:], dev="", need_impl=False)
            else:
                drows, _ = model_and_impl(ctx, tag + "_dev", sub, modes, emit=emit, ast=ast, dev=dev, need_impl=False)
            dmap = {key_of(j): r for r, j, _, _ in drows}
            for i, (rec, job, obs, gram, diffs) in enumerate(mism):
                if i in explained:
                    continue
                drec = dmap.get(key_of(job))
                if drec is not None and not compare(drec, job, obs, gram):
                    explained.add(i)
                    t = known.title_for(dev)
                    ctx.known_hits[t] = ctx.known_hits.get(t, 0) + 1
        for i, (rec, job, obs, gram, diffs) in enumerate(mism):
            if i in explained:
                continue
            f, e, o = diffs[0]
            ctx.violation("%s: %s rule %s input %r: expected %s, observed %s" % (f, gram["id"], job["rule"], uncps(job["pre"]) + "|" + uncps(job["inp"]) + "|" + uncps(job["post"]), json.dumps(e)[:120], json.dumps(o)[:120]),
                          replay_of(rec, job, obs, gram, f, e, o))
    if ctx.notes.get("pest_witness", {}).get("spec_drift"):
        raise ToolError("SPEC-DRIFT: the model disagrees with pest on stack-free grammars: %s" % json.dumps(ctx.notes.get("spec_drift_samples"))[:3000])
    return rows


# ------------------------------------------------------------------------------------------------
# compare functions: decisive fields per property

def cmp_c01(rec, job, obs, gram):
    d = []
    for form in ("str", "pos", "span"):
        pp = typed_form(obs, form, "pp")
        if pp is None:
            continue
        if is_bad(pp):
            d.append((form + ".parse_partial", {"ok": rec["ok"]}, pp))
            continue
        if pp.get("ok") != rec["ok"]:
            d.append((form + ".parse_partial.ok", rec["ok"], pp.get("ok")))
        elif rec["ok"] and pp.get("end") != rec["end"]:
            d.append((form + ".parse_partial.end", rec["end"], pp.get("end")))
        if not ALL_FORMS:
            break   # on the main corpus only the first form is compared (whole strings); the forms pass compares all three
    return d


ALL_FORMS = False


def forms_grams(tier):
    """family sub (every kind of matcher next to the end / start of a sub-input, 11 contexts) + family trig inside contexts: the
    corpus of the 'forms pass' in which a check compares the &str, Position and Span forms of the same parse"""
    F = families
    g = [dict(x) for x in F.fam_sub(tier)]
    ctx = [[cps(a), cps(b)] for a, b in [["", ""], ["", "b"], ["x", ""], ["a", "b!"], ["é", "é"], ["", "1"]]]
    for x in F.fam_trig(tier):
        g.append(dict(x, ctxs=ctx, maxlen=min(x.get("maxlen", 2), 2)))
    return g


def forms_pass(ctx, tag, cmp, tier, emit="core", modes="spn"):
    global ALL_FORMS
    ALL_FORMS = True
    try:
        rows = run_generic(ctx, tag, forms_grams(tier), modes, cmp, emit=emit, with_pest=False, famname="formsf")
    finally:
        ALL_FORMS = False
    ctx.notes["forms_pass_behaviours"] = len(rows)
    return rows



FORMS = ("str", "pos", "span")


def forms_of(obs):
    t = obs.get("t")
    return [f for f in FORMS if isinstance(t, dict) and f in t and not t[f].get("invalid")]


def cmp_c02(rec, job, obs, gram):
    """pair tree = pest's minus pruning below @ / $ tokens"""
    d = []
    if not rec["ok"]:
        return d
    for form in (forms_of(obs) if ALL_FORMS else forms_of(obs)[:1]):
        pp = typed_form(obs, form, "pp")
        if is_bad(pp) or not pp.get("ok"):
            continue    # verdict is C01's business
        if pp.get("toks") != rec["ptoks"]:
            d.append((form + ".parse_partial.tokens", rec["ptoks"], pp.get("toks")))
        pf = typed_form(obs, form, "pf")
        if rec["full"]["ok"] and not is_bad(pf) and pf.get("ok") and pf.get("toks") != rec["ptoks"]:
            d.append((form + ".parse.tokens", rec["ptoks"], pf.get("toks")))
    return d


def err_key(e):
    if not e:
        return None
    e = e.get("err", e)
    return (e.get("loc"), e.get("disp"), tuple(e.get("lc", [])))


def cmp_c03(rec, job, obs, gram):
    """check entry points = parse entry points (verdict, offset, error), and both = the model's verdict/offset"""
    d = []
    for form in forms_of(obs):
        pp, cp, pf, cf = (typed_form(obs, form, k) for k in ("pp", "cp", "pf", "cf"))
        ppt, cpt, pft, cft = (typed_form(obs, form, k) for k in ("ppt", "cpt", "pft", "cft"))
        for nm, o in (("pp", pp), ("cp", cp), ("pf", pf), ("cf", cf), ("ppt", ppt), ("cpt", cpt), ("pft", pft), ("cft", cft)):
            if is_bad(o):
                d.append(("%s.%s" % (form, nm), "a result", o))
        if d:
            return d
        if cp["ok"] != pp["ok"]:
            d.append((form + ".check_partial.ok vs parse_partial.ok", pp["ok"], cp["ok"]))
        elif pp["ok"] and cp["end"] != pp["end"]:
            d.append((form + ".check_partial.end vs parse_partial.end", pp["end"], cp["end"]))
        elif not pp["ok"] and err_key(cp) != err_key(pp):
            d.append((form + ".check_partial.error vs parse_partial.error", pp.get("err"), cp.get("err")))
        if cf["ok"] != pf["ok"]:
            d.append((form + ".check.ok vs parse.ok", pf["ok"], cf["ok"]))
        elif not pf["ok"] and err_key(cf) != err_key(pf):
            d.append((form + ".check.error vs parse.error", pf.get("err"), cf.get("err")))
        if cpt.get("trk") != ppt.get("trk") or cpt.get("ok") != ppt.get("ok") or cpt.get("end") != ppt.get("end"):
            d.append((form + ".try_check_partial_with vs try_parse_partial_with", ppt, cpt))
        elif ppt.get("ok") and cpt.get("stk") != ppt.get("stk"):
            d.append((form + ".stack after check vs after parse", ppt.get("stk"), cpt.get("stk")))
        if cft != pft:
            d.append((form + ".try_check_with vs try_parse_with", pft, cft))
    return d


def cmp_c04(rec, job, obs, gram):
    """full parse ok <=> prefix ok and rest empty after trailing skip (by kind); tree = prefix tree"""
    d = []
    for form in forms_of(obs):
        pp, pf, cf, pft = (typed_form(obs, form, k) for k in ("pp", "pf", "cf", "pft"))
        for nm, o in (("pf", pf), ("cf", cf), ("pp", pp), ("pft", pft)):
            if is_bad(o):
                d.append(("%s.%s" % (form, nm), "a result", o))
        if d:
            return d
        exp = rec["full"]["ok"]
        if pf["ok"] != exp:
            d.append((form + ".parse.ok", exp, pf["ok"]))
        if cf["ok"] != exp:
            d.append((form + ".check.ok", exp, cf["ok"]))
        if exp and pf["ok"] and pp.get("ok") and (pf.get("dbgh") != pp.get("dbgh") or pf.get("toks") != pp.get("toks")):
            d.append((form + ".parse tree vs parse_partial tree", pp.get("toks"), pf.get("toks")))
        if rec["ok"] and not exp and not pf["ok"]:
            loc = pf["err"]["loc"]
            if loc < rec["end"]:
                d.append((form + ".parse error location before the matched prefix", ">= %d" % rec["end"], loc))
    return d


def cmp_c08(rec, job, obs, gram):
    """sub-input = slice parsed on its own (rec is the model's run; equality of model runs across contexts is checked by the driver)"""
    d = []
    for form in forms_of(obs):
        pp, cp, pf, cf, ppt, pft = (typed_form(obs, form, k) for k in ("pp", "cp", "pf", "cf", "ppt", "pft"))
        for nm, o in (("pp", pp), ("cp", cp), ("pf", pf), ("cf", cf), ("ppt", ppt), ("pft", pft)):
            if is_bad(o):
                d.append(("%s.%s" % (form, nm), "a result", o))
        if d:
            return d
        if pp["ok"] != rec["ok"] or (rec["ok"] and pp["end"] != rec["end"]):
            d.append((form + ".parse_partial", {"ok": rec["ok"], "end": rec["end"]}, {"ok": pp["ok"], "end": pp.get("end")}))
        elif rec["ok"] and pp["toks"] != rec["ptoks"]:
            d.append((form + ".parse_partial.tokens", rec["ptoks"], pp["toks"]))
        if cp["ok"] != rec["ok"] or (rec["ok"] and cp["end"] != rec["end"]):
            d.append((form + ".check_partial", {"ok": rec["ok"], "end": rec["end"]}, {"ok": cp["ok"], "end": cp.get("end")}))
        if pf["ok"] != rec["full"]["ok"]:
            d.append((form + ".parse.ok", rec["full"]["ok"], pf["ok"]))
        if cf["ok"] != rec["full"]["ok"]:
            d.append((form + ".check.ok", rec["full"]["ok"], cf["ok"]))
        if not rec["ok"] and not ppt.get("ok") and ppt["trk"]["pos"] != rec["trk"]["pos"]:
            d.append((form + ".error position (relative to the slice)", rec["trk"]["pos"], ppt["trk"]["pos"]))
    return d


def walk_bad(o, path=""):
    """any panic / out-of-range or non-boundary offset flagged by the runner"""
    out = []
    if isinstance(o, dict):
        if "panic" in o:
            out.append((path + ".panic", "no panic", o["panic"][:200]))
        for k in ("bad", "badend", "badtok"):
            if o.get(k) is True:
                out.append((path + "." + k, "offset in range on a char boundary", o))
        for k, v in o.items():
            out += walk_bad(v, path + "." + k if path else k)
    return out


def cmp_c09(rec, job, obs, gram):
    d = []
    if obs.get("crash") is not None or obs.get("timeout") or obs.get("missing"):
        return [("process", "returns", obs)]
    d += walk_bad(obs.get("t"), "t")
    for form in forms_of(obs):
        pp = typed_form(obs, form, "pp")
        if not is_bad(pp) and pp.get("ok") == rec["ok"] and rec["ok"] and pp.get("end") != rec["end"]:
            d.append((form + ".end", rec["end"], pp.get("end")))
    return d


def claims_ok(trk, log, minpos):
    """C10 oracle on one tracker report: in range (runner flag), not before minpos, every claim backed by the log"""
    d = []
    if trk.get("bad"):
        d.append(("location out of range / off boundary", "in range", trk["pos"]))
    L = trk["pos"]
    if L < minpos:
        d.append(("location before the matched prefix", ">= %d" % minpos, L))
    for ent in trk.get("att", []):
        for r in ent["p"]:
            if not any(x[0] == r and x[1] == L and not x[2] for x in log):
                d.append(("expected rule %s never failed at %d" % (r, L), "a failed invocation at the location", ent))
        for r in ent["n"]:
            if not any(x[0] == r and x[1] == L and x[2] for x in log):
                d.append(("unexpected rule %s never matched at %d" % (r, L), "a successful invocation at the location", ent))
    return d


import re as _re


def parse_report(text):
    """the rendered error (pest's Display of a CustomError built by Tracker::collect): header line:col and the claims"""
    m = _re.search(r"--> (\d+):(\d+)", text)
    lc = (int(m.group(1)), int(m.group(2))) if m else None
    exp, unexp = [], []
    for line in text.splitlines():
        for mm in _re.finditer(r"[Ee]xpected \[(.*?)\]", line):
            pre = line[: mm.start()]
            names = [x.strip() for x in mm.group(1).split(",") if x.strip()]
            if line[mm.start():].startswith("Unexpected") or pre.rstrip().endswith("Un"):
                unexp += names
            elif line[max(0, mm.start() - 2): mm.start()] == "Un":
                unexp += names
            else:
                exp += names
    return lc, exp, unexp


def line_col_of(text, off):
    b = text.encode()[:off].decode()
    line = b.count("\n") + 1
    col = len(b) - (b.rfind("\n") + 1) + 1
    return (line, col)


def report_claims_ok(disp, trk, full_text, lo, log, what):
    """what the user reads must say what the tracker holds, at the line:col of the location, and be truthful"""
    d = []
    if not isinstance(disp, str) or disp == "PANIC" or len(disp) == 16 and " " not in disp:
        return d
    lc, exp, unexp = parse_report(disp)
    want_lc = line_col_of(full_text, lo + trk["pos"])
    if lc != want_lc:
        d.append((what + ": rendered line:col", list(want_lc), list(lc) if lc else None))
    tp = sorted({r for e in trk["att"] for r in e["p"]})
    tn = sorted({r for e in trk["att"] for r in e["n"]})
    if sorted(set(exp)) != tp or sorted(set(unexp)) != tn:
        d.append((what + ": rendered claims vs tracker", {"expected": tp, "unexpected": tn}, {"expected": sorted(set(exp)), "unexpected": sorted(set(unexp))}))
    L = trk["pos"]
    for r in set(exp):
        if not any(x[0] == r and x[1] == L and not x[2] for x in log):
            d.append((what + ": rendered 'expected %s' is not true at %d" % (r, L), "a failed invocation", disp[-200:]))
    for r in set(unexp):
        if not any(x[0] == r and x[1] == L and x[2] for x in log):
            d.append((what + ": rendered 'unexpected %s' is not true at %d" % (r, L), "a successful invocation", disp[-200:]))
    return d


def cmp_c10(rec, job, obs, gram):
    d = []
    for form in forms_of(obs):
        pp, ppt, pf, pft, cpt, cft = (typed_form(obs, form, k) for k in ("pp", "ppt", "pf", "pft", "cpt", "cft"))
        for nm, o in (("pp", pp), ("ppt", ppt), ("pf", pf), ("pft", pft)):
            if is_bad(o):
                d.append(("%s.%s" % (form, nm), "a result", o))
        if d:
            return d
        if not ppt["ok"] and not rec["ok"]:
            for x in claims_ok(ppt["trk"], rec["plog"], 0):
                d.append((form + ".partial: " + x[0], x[1], x[2]))
            if pp.get("err"):
                e = pp["err"]
                if e.get("disp") == "PANIC":
                    d.append((form + ".rendering the error panicked", "a string", "PANIC"))
                if e.get("nondet"):
                    d.append((form + ".two runs gave different reports", "same", "different"))
                if e.get("bad") or e.get("loc") != ppt["trk"]["pos"]:
                    d.append((form + ".Error.location", ppt["trk"]["pos"], e))
                d += report_claims_ok(e.get("disp"), ppt["trk"], uncps(job["pre"] + job["inp"] + job["post"]), len(uncps(job["pre"]).encode()), rec["plog"], form + ".partial")
        if not pft["ok"] and not rec["full"]["ok"]:
            for x in claims_ok(pft["trk"], rec["log"], rec["end"] if rec["ok"] else 0):
                d.append((form + ".full: " + x[0], x[1], x[2]))
            if pf.get("err") and pf["err"].get("disp") == "PANIC":
                d.append((form + ".rendering the error panicked", "a string", "PANIC"))
            elif pf.get("err"):
                d += report_claims_ok(pf["err"].get("disp"), pft["trk"], uncps(job["pre"] + job["inp"] + job["post"]), len(uncps(job["pre"]).encode()), rec["log"], form + ".full")
    return d


def report_equal(rec, obs):
    ppt = typed_form(obs, "str", "ppt") or typed_form(obs, "span", "ppt")
    if not ppt or ppt.get("ok") or rec["ok"] or not isinstance(ppt.get("trk"), dict):
        return None      # (also: the observation is a caught panic; that is the comparer's business, this count is informative only)
    m = [{"u": None if e["u"] == "-" else e["u"], "p": e["p"], "n": e["n"], "s": len(e["s"])} for e in rec["trk"]["att"]]
    o = [{"u": e["u"], "p": e["p"], "n": e["n"], "s": len(e["s"])} for e in ppt["trk"]["att"]]
    key = lambda e: str(e["u"])
    return ppt["trk"]["pos"] == rec["trk"]["pos"] and sorted(m, key=key) == sorted(o, key=key)


def cmp_c05(rec, job, obs, gram):
    """failed attempts leave no trace: verdict, offset and final stack as the immutable-stack denotation says (parse and check paths)"""
    d = []
    for form in (forms_of(obs) if ALL_FORMS else forms_of(obs)[:1]):
        pp, cp, ppt, cpt = (typed_form(obs, form, k) for k in ("pp", "cp", "ppt", "cpt"))
        for nm, o in (("pp", pp), ("cp", cp), ("ppt", ppt), ("cpt", cpt)):
            if is_bad(o):
                d.append(("%s.%s" % (form, nm), "a result", o))
        if d:
            return d
        for nm, o in (("parse_partial", pp), ("check_partial", cp)):
            if o["ok"] != rec["ok"]:
                d.append(("%s.%s.ok" % (form, nm), rec["ok"], o["ok"]))
            elif rec["ok"] and o["end"] != rec["end"]:
                d.append(("%s.%s.end" % (form, nm), rec["end"], o["end"]))
        if not d and rec["ok"]:
            for nm, o in (("parse", ppt), ("check", cpt)):
                if o.get("stk") != rec["stk"]:
                    d.append(("%s.stack after %s" % (form, nm), rec["stk"], o.get("stk")))
    return d


def cmp_c06(rec, job, obs, gram):
    """stack operations as pest specifies, graceful failure"""
    d = walk_bad(obs.get("t"), "t")
    if d:
        return d
    return cmp_c05(rec, job, obs, gram)


def cmp_c07(rec, job, obs, gram):
    """implicit skipping / atomicity: verdict, offset, token spans (parse), verdict / offset (check)"""
    d = []
    for form in (forms_of(obs) if ALL_FORMS else forms_of(obs)[:1]):
        pp, cp = typed_form(obs, form, "pp"), typed_form(obs, form, "cp")
        for nm, o in (("pp", pp), ("cp", cp)):
            if is_bad(o):
                d.append(("%s.%s" % (form, nm), "a result", o))
        if d:
            return d
        for nm, o in (("parse_partial", pp), ("check_partial", cp)):
            if o["ok"] != rec["ok"]:
                d.append(("%s.%s.ok" % (form, nm), rec["ok"], o["ok"]))
            elif rec["ok"] and o["end"] != rec["end"]:
                d.append(("%s.%s.end" % (form, nm), rec["end"], o["end"]))
        if not d and rec["ok"] and pp["toks"] != rec["ptoks"]:
            d.append((form + ".tokens", rec["ptoks"], pp["toks"]))
        # no skipping at the end of an atomic / compound entry rule, trailing skip otherwise: the full verdicts
        for nm in ("pf", "cf"):
            o = typed_form(obs, form, nm)
            if not d and not is_bad(o) and o["ok"] != rec["full"]["ok"]:
                d.append(("%s.%s.ok" % (form, {"pf": "parse", "cf": "check"}[nm]), rec["full"]["ok"], o["ok"]))
    return d


def grams_for(prop, tier, seed):
    g = _grams_for(prop, tier, seed)
    if prop in ("C01", "C02", "C03", "C04", "C05", "C07", "C09", "C10"):
        have = {x["id"] for x in g}
        g += [x for x in families.fam_trig(tier) if x["id"] not in have]
    if prop == "C10":
        # the same failures on a Position / Span that starts inside a longer string: the report stays inside the given (sub-)input
        for x in g:
            if x["id"].startswith(("er", "tr", "tg")) and not x.get("ctxs"):
                x["ctxs"] = [[[], []], [cps("ab"), cps("a")], [cps("é\n"), []]]
    return g


def _grams_for(prop, tier, seed):
    q = tier == "quick"
    F = families
    if prop in ("C01", "C02"):
        g = F.fam_ops(tier)
        g += F.fam_rand(tier, seed, 12 if q else 60, "plain")
        g += F.fam_rand(tier, seed, 8 if q else 40, "stack")
        g += F.fam_rand(tier, seed, 8 if q else 40, "ws")
        g += F.fam_rand(tier, seed, 6 if q else 30, "utf8")
        g += F.fam_rand(tier, seed, 6 if q else 60, "mix")
        g += F.fam_utf8(tier)
        k = F.fam_kinds(tier)
        g += k[::9] if q else k[::2]
        g += F.fam_dyck_inputs(tier)
        g += F.fam_repo(tier)
        g += F.fam_skipuntil(tier)
        sr = F.fam_skiprules(tier)
        g += sr[::6] if q else sr
        g += F.fam_odd(tier)
        mm = F.fam_memo(tier)
        g += mm[::3] if q else mm
        return g
    if prop == "C03":
        g = F.fam_ops(tier)
        if q:
            g = g[::2]
        g += F.fam_rand(tier, seed, 8 if q else 40, "plain")
        g += F.fam_rand(tier, seed, 8 if q else 40, "stack")
        g += F.fam_rand(tier, seed, 6 if q else 30, "ws")
        g += F.fam_rand(tier, seed, 5 if q else 50, "mix")
        st = F.fam_stack(tier)
        g += st[::3] if q else st
        g += F.fam_err(tier)
        k = F.fam_kinds(tier)
        g += k[::12] if q else k[::3]
        g += F.fam_repo(tier)
        g += F.fam_skipuntil(tier)
        g += F.fam_odd(tier)
        return g
    if prop == "C04":
        g = F.fam_trail(tier)
        for x in g:      # the same behaviours inside a longer string: text after the window must not be skipped or read
            x["ctxs"] = [[cps(a), cps(b)] for a, b in [["", ""], ["", " "], ["", "#b#"], ["a", " b"], [" ", "#"]]]
            x["maxlen"] = min(x.get("maxlen", 3), 3)
        k = F.fam_kinds(tier)
        g += k[::9] if q else k[::2]
        g += F.fam_rand(tier, seed, 6 if q else 30, "ws")
        return g
    if prop == "C08":
        g = F.fam_sub(tier)
        ctx = [[cps(a), cps(b)] for a, b in [["", ""], ["", "b"], ["x", ""], ["a", "b"], ["é", "é"], [" ", " "], ["ab", "a"]]]
        extra = F.fam_rand(tier, seed, 5 if q else 25, "plain") + F.fam_rand(tier, seed, 4 if q else 20, "ws") + F.fam_rand(tier, seed, 3 if q else 15, "utf8")
        ops = F.fam_ops(tier)
        extra += ops[::6] if q else ops[::2]
        # stack built-ins (PEEK_ALL, POP_ALL, slices) whose match ends at the very end of the sub-input; the trigger grammar
        sl = F.fam_slices(tier)
        extra += F.fam_trig(tier) + [dict(g, inputs=g["inputs"][::6 if q else 10]) for g in (sl[2:9:3] if q else sl[::3])]
        for x in extra:
            x["ctxs"] = ctx if not q else ctx[:5]
            x["maxlen"] = min(x.get("maxlen", 3), 3)
        return g + extra
    if prop == "C09":
        g = F.fam_utf8(tier) + F.fam_sub(tier) + F.fam_skipuntil(tier)
        g += F.fam_rand(tier, seed, 10 if q else 60, "utf8")
        g += F.fam_rand(tier, seed, 5 if q else 30, "stack")
        ops = F.fam_ops(tier)
        g += ops[::5] if q else ops[::2]
        g += F.fam_long(tier)
        return g
    if prop == "C10":
        g = F.fam_err(tier) + F.fam_trail(tier)[:2 if q else 6]
        g += F.fam_rand(tier, seed, 8 if q else 50, "plain")
        g += F.fam_rand(tier, seed, 6 if q else 30, "stack")
        ops = F.fam_ops(tier)
        g += ops[::5] if q else ops[::2]
        g += F.fam_repo(tier)
        g += F.fam_long(tier)
        return g
    if prop == "C05":
        st = F.fam_stack(tier)
        g = st[::2] if q else st
        g += F.fam_rand(tier, seed, 14 if q else 80, "stack")
        g += F.fam_rand(tier, seed, 6 if q else 60, "mix")
        ss = F.fam_skipstack(tier)
        g += ss[::2] if q else ss
        g += F.fam_memo(tier)
        return g
    if prop == "C06":
        g = F.fam_slices(tier)
        for x in g[:: (6 if q else 2)]:   # stack entries must not be completed by text after the end of a Span
            x["ctxs"] = [[cps(a), cps(b)] for a, b in [["", ""], ["", "a"], ["", "bb"], ["a", " "]]]
            x["inputs"] = x["inputs"][::6]
        return g
    if prop == "C07":
        g = F.fam_kinds(tier)
        g += F.fam_rand(tier, seed, 10 if q else 60, "ws")
        ops = [x for x in F.fam_ops(tier) if x["id"].startswith("ow")]
        g += ops[::3] if q else ops
        sr = F.fam_skiprules(tier)
        g += sr[1::5] if q else sr
        g += [x for x in F.fam_odd(tier) if x["id"] in ("odd4", "odd5")]      # check-path repetitions; rules named like built-ins
        return g
    raise KeyError(prop)


RULE_A = "one behaviour = (grammar, entry rule, input[, context]) of the corpus (operator compositions under the five rule kinds, kind chains, stack / skip / utf8 / seeded random grammars; all inputs up to the length bound over each grammar's alphabet plus structured sentences). TLC runs the machine on each (M1: machine = denotation; M2, M6, M9, M11 in every state / step) and prints the expected record; the real entry points are run on each and the decisive fields compared. non-trivial = the model consumed input or the tracker advanced. "


def check_C01(tier, seed):
    ctx = Ctx("C01", tier, seed)
    grams = grams_for("C01", tier, seed)
    ctx.notes["grammars"] = len(grams)
    rows = run_generic(ctx, "c01", grams, "sP", cmp_c01)
    forms_pass(ctx, "c01f", cmp_c01, tier)
    import tracechk
    sub = [dict(g) for g in grams if tracechk.eligible(g)]
    sub = (sub[::4] if tier == "quick" else sub) + families.fam_json(tier, seed)       # + long JSON documents on the repository's benchmark grammar
    tracechk.validate(ctx, "c01", sub, seed, 3 if tier == "quick" else 12, rows=rows)
    return ctx.finish(rule=RULE_A + "Decisive: verdict and consumed byte offset of try_parse_partial.")


def check_C02(tier, seed):
    ctx = Ctx("C02", tier, seed)
    grams = grams_for("C02", tier, seed)
    ctx.notes["grammars"] = len(grams)
    run_generic(ctx, "c02", grams, "sP", cmp_c02, famname="c01")
    forms_pass(ctx, "c02f", cmp_c02, tier)
    return ctx.finish(rule=RULE_A + "Decisive: the token tree of self_or_children() (rule, start, end, depth in pre-order) against Prune(Tokens) of the model; Tokens itself is validated against pest's Pairs on every behaviour where pest is defined.")


def check_C03(tier, seed):
    ctx = Ctx("C03", tier, seed)
    grams = grams_for("C03", tier, seed)
    ctx.notes["grammars"] = len(grams)
    run_generic(ctx, "c03", grams, "spn", cmp_c03, with_pest=False)
    # the raw-AST path (pest_optimizer = false) keeps counted repetitions and e+ as runtime nodes: parse vs check there too
    raw = [dict(g) for g in grams if any(t in g["text"] for t in ("{2}", "{1,}", "{,2}", "{1,2}", ")+", "\"+"))]
    raw = raw[::3] if tier == "quick" else raw
    for g in raw:
        g["id"] = g["id"] + "x"
        g["opts"] = {"pest_optimizer": False}
    ctx.notes["raw_ast_variants"] = len(raw)
    run_generic(ctx, "c03x", raw, "spn", cmp_c03, ast="src", with_pest=False)
    return ctx.finish(rule=RULE_A + "Decisive: try_check / try_check_partial against try_parse / try_parse_partial on the same input object, for &str, Position and Span: verdict, offset, rendered error, tracker report, final stack; and both against the model.")


def check_C04(tier, seed):
    ctx = Ctx("C04", tier, seed)
    grams = grams_for("C04", tier, seed)
    ctx.notes["grammars"] = len(grams)
    run_generic(ctx, "c04", grams, "spn", cmp_c04, with_pest=False)
    return ctx.finish(rule=RULE_A + "Decisive: verdict of try_parse / try_check against SemFull (prefix, trailing skip by rule kind, end of input); on success the tree equals the prefix tree; on failure the location is not before the prefix end.")


def check_C08(tier, seed):
    ctx = Ctx("C08", tier, seed)
    grams = grams_for("C08", tier, seed)
    ctx.notes["grammars"] = len(grams)
    rows = run_generic(ctx, "c08", grams, "spn", cmp_c08, with_pest=False)
    # model-level M7: the run on (pre . s . post, |pre|, |pre|+|s|) equals the run on s alone, shifted
    groups = {}
    for rec, job, obs, gram in rows:
        groups.setdefault((job["g"], job["rule"], tuple(job["inp"])), []).append((rec, job))
    n = 0
    for k, v in groups.items():
        base = [r for r, j in v if not j["pre"] and not j["post"]]
        if not base:
            continue
        b = base[0]
        for r, j in v:
            n += 1
            for f in ("ok", "end", "ptoks", "trk", "full"):
                if r[f] != b[f]:
                    raise ToolError("model M7 violated (spec bug): %s %s differs between contexts: %s vs %s" % (k, f, r[f], b[f]))
    ctx.notes["model_M7_context_comparisons"] = n
    return ctx.finish(rule=RULE_A + "Contexts: each behaviour is run as Span(pre.s.post) and Position(pre.s) for contexts incl. completions of straddling needles / literals / multi-byte characters; the model's own runs are checked to be context-independent (M7) and the real results (verdict, relative offsets, tokens, error position; partial and full entry points) compared with the model run.")


def check_C09(tier, seed):
    ctx = Ctx("C09", tier, seed)
    grams = grams_for("C09", tier, seed)
    ctx.notes["grammars"] = len(grams)
    rows = run_generic(ctx, "c09", grams, "spn", cmp_c09, with_pest=False)
    # second build profile: no debug assertions / overflow checks => the get_unchecked paths
    profiles = ["nodbg"] + (["release"] if tier == "thorough" else [])
    for prof in profiles:
        binp, errs = famgen.build_family(ctx.last_shards, prof)
        if binp is None:
            raise ToolError("profile %s build failed: %s" % (prof, errs))
        send = [{k: v for k, v in j.items() if k != "_rec"} for _, j, _, _ in rows]
        res = run_sharded(binp, ctx.last_shards, send)
        ndiff = 0
        for rec, job, obs, gram in rows:
            o2 = res.get(job["idx"], {"missing": True})
            ctx.cov["evaluations"] += 1
            # (agreement with the model was decided on the dev profile, incl. the known-findings policy; here: totality and equality)
            d = [("process", "returns", o2)] if (o2.get("crash") is not None or o2.get("timeout") or o2.get("missing")) else walk_bad(o2.get("t"), "t")
            if not d and o2 != obs:
                d = [("profile %s differs from dev" % prof, obs, o2)]
            if d:
                ndiff += 1
                f, e, o = d[0]
                ctx.violation("%s [%s]: %s rule %s input %r" % (f, prof, gram["id"], job["rule"], uncps(job["inp"])), replay_of(rec, job, o2, gram, f + " [" + prof + "]", e, o))
        ctx.notes["profile_" + prof + "_runs"] = len(rows)
    return ctx.finish(rule=RULE_A + "Alphabets mix 1-, 2-, 3-, 4-byte characters and CR/LF. Decisive: no panic / abort / timeout; every reported offset (cursor, token spans, error location) inside the input range on a char boundary (tested by the runner before any slicing); identical records in the dev profile and in a profile without debug assertions (unchecked slicing), thorough: release too.")


def check_C10(tier, seed):
    ctx = Ctx("C10", tier, seed)
    grams = grams_for("C10", tier, seed)
    ctx.notes["grammars"] = len(grams)
    rows = run_generic(ctx, "c10", grams, "spnD", cmp_c10, emit="all", with_pest=False)
    eq = [report_equal(rec, obs) for rec, job, obs, gram in rows]
    ctx.notes["reports_equal_to_model_tracker"] = sum(1 for x in eq if x)
    ctx.notes["reports_differing_from_model_tracker_(drift,not_decisive)"] = sum(1 for x in eq if x is False)
    return ctx.finish(rule=RULE_A + "Decisive (rejected inputs, partial and full entry points, three input forms): location in range on a boundary and not before the matched prefix; every rule listed as expected has a failed invocation at the location in the model's invocation log, every rule listed as unexpected a successful one (M9 checks the same of the model's own tracker); Display does not panic; two runs give the same report.")


FAMNAME = {"C02": "c01"}
COMPARE = {"C01": (cmp_c01, "sP", True, "core"), "C02": (cmp_c02, "sP", True, "core"), "C03": (cmp_c03, "spn", False, "core"),
           "C04": (cmp_c04, "spn", False, "core"), "C08": (cmp_c08, "spn", False, "core"), "C09": (cmp_c09, "spn", False, "core"),
           "C10": (cmp_c10, "spnD", False, "all")}


def setup():
    COMPARE.update(COMPARE_EXTRA)
    return setup2()


def setup2():
    """Build the tools and warm the harness crates of every claimed check (quick tier corpus)."""
    t0 = time.time()
    peg.ensure_pest2json()
    for prop in sorted(COMPARE):
        cmpf, modes, with_pest, emit = COMPARE[prop]
        grams = grams_for(prop, "quick", int(os.environ.get("VERIF_SEED", "1")))
        path, corpus = peg.make_corpus(grams, prop.lower())
        for g, c in zip(grams, corpus):
            g["rules"] = c["rule_names"] if not g.get("entries") else g["entries"]
        shards = famgen.gen_family(FAMNAME.get(prop, prop.lower()), grams, with_pest=with_pest)
        binp, errs = famgen.build_family(shards)
        print("setup: %s %d shards (%d grammars) %s  [%.0fs]" % (prop, len(shards), len(grams), "ok" if binp else "COMPILE ERRORS in %s" % sorted(errs), time.time() - t0))
        if prop == "C09":
            famgen.build_family(shards, "nodbg")
    # remaining checks generate their own crates: warm them by building what they need (tools + families) once
    import textchk
    textchk.textrun_bin()
    p, _ = build_bin("genrun")
    if p.returncode != 0:
        raise ToolError("genrun build failed")
    for prop in ("C15", "C11", "C16", "C17", "C18", "C19", "C20"):
        t1 = time.time()
        os.environ["VERIF_SETUP_ONLY"] = "1"
        try:
            rc = CHECKS[prop]("quick", int(os.environ.get("VERIF_SEED", "1")))
        finally:
            os.environ.pop("VERIF_SETUP_ONLY", None)
        print("setup: %s warmed (rc=%s) [%.0fs]" % (prop, rc, time.time() - t1))
    print("setup done in %.0fs" % (time.time() - t0))
    return 0


EXTRA_SETUP = []


def replay(prop, path):
    COMPARE.update(COMPARE_EXTRA)
    r = json.load(open(path))
    prop = prop or r.get("property")
    if r.get("kind") != "behaviour" or prop not in COMPARE:
        # records of the text / tree / raw / history / generator checks: re-run the check (same tier and seed as recorded in the
        # evidence defaults) and report whether the same case is reported again
        print(json.dumps(r, indent=1, ensure_ascii=False)[:3000])
        key = {k: r.get(k) for k in ("string", "cps", "cell", "history", "grammar", "ops", "input", "rule", "field", "what", "at") if k in r}
        before = set(os.listdir(REPLAY_DIR)) if os.path.isdir(REPLAY_DIR) else set()
        rc = CHECKS[prop](os.environ.get("VERIF_TIER", "quick"), int(os.environ.get("VERIF_SEED", "1")))
        again = False
        for f in (os.listdir(REPLAY_DIR) if os.path.isdir(REPLAY_DIR) else []):
            try:
                x = json.load(open(os.path.join(REPLAY_DIR, f)))
            except Exception:
                continue
            if x.get("property") == prop and all(x.get(k) == v for k, v in key.items()):
                again = True
        print("replay: the recorded case is %s" % ("reported again" if again else "no longer reported"))
        return 1 if again else 0
    cmpf, modes, with_pest, emit = COMPARE[prop]
    ctx = Ctx(prop + "_replay", "quick", 0)
    g = dict(id=r.get("grammar_id", "g0"), text=r["grammar"], alphabet=[], maxlen=0, inputs=[r["input_cps"]],
             ctxs=[[cps(r.get("pre", "")), cps(r.get("post", ""))]], opts=r.get("opts"), entries=[r["rule"]])
    rows, _ = model_and_impl(ctx, "replay", [g], modes, emit=emit, with_pest=with_pest)
    rc = 0
    for rec, job, obs, gram in rows:
        print("MODEL   :", json.dumps(rec, ensure_ascii=False)[:3000])
        print("OBSERVED:", json.dumps(obs, ensure_ascii=False)[:3000])
        d = cmpf(rec, job, obs, gram)
        for f, e, o in d:
            print("MISMATCH %s: expected %s observed %s" % (f, json.dumps(e)[:300], json.dumps(o)[:300]))
            rc = 1
    print("replay: %s" % ("still violates" if rc else "agrees with the model now"))
    return rc


def stack_adt(ctx, tier):
    """PegStack.tla: every operation sequence up to the bound; the by-value discipline equals the ideal stack (invariant);
    each sequence whose snapshots are all closed is replayed on the real restore_on_none."""
    import textchk
    n = 6 if tier == "quick" else 8
    recs, st = peg.run_tlc("", "c05", cfg="PegStack.cfg", module="PegStack.tla", extra_env={"VERIF_MAXOPS": str(n)})
    if not st["ok"]:
        raise ToolError("TLC failed on PegStack:\n" + st.get("tail", "")[-3000:])
    ctx.add_stats(st)
    _, st2 = peg.run_tlc("", "c05", cfg="PegStack_pest.cfg", module="PegStack.tla", extra_env={"VERIF_MAXOPS": "6"}, workers=1)
    ctx.notes["PegStack_pest2714_equals_ideal"] = bool(st2["ok"])      # expected False: the dependency's defect, explained by the spec
    closed = [r for r in recs if r["open"] == 0]
    binp = textchk.textrun_bin()
    obs = textchk.run_text(binp, [{"idx": i, "s": [], "mode": "stack", "ops": r["ops"]} for i, r in enumerate(closed)])
    for i, r in enumerate(closed):
        o = obs.get(i, {})
        ctx.cov["evaluations"] += 1
        if any(op[0] in ("restore", "clear") for op in r["ops"]):
            ctx.cov["distinct_nontrivial"] += 1
        if o.get("content") != r["content"]:
            ctx.violation("restore_on_none on the operation sequence %s: expected stack %s observed %s" % (r["ops"], r["content"], o.get("content")),
                          {"kind": "stack_ops", "ops": r["ops"], "expected": r["content"], "observed": o})
    ctx.cov["traces_validated_against_impl"] += len(closed)
    ctx.notes["stack_op_sequences_replayed"] = len(closed)


def check_C05(tier, seed):
    ctx = Ctx("C05", tier, seed)
    grams = grams_for("C05", tier, seed)
    ctx.notes["grammars"] = len(grams)
    rows = run_generic(ctx, "c05", grams, "sP", cmp_c05)
    forms_pass(ctx, "c05f", cmp_c05, tier)
    stack_adt(ctx, tier)
    import tracechk
    tracechk.validate(ctx, "c05", [dict(g) for g in grams], seed, 6 if tier == "quick" else 40, rows=rows)
    return ctx.finish(rule=RULE_A + "Family: {choice, two-armed choice, optional, repetition, &, &-failing, !, !-succeeding, nested optional, repetition over choice} x 9 stack effects (PUSH, POP, DROP, POP_ALL, push-push, pop-push, drop-push, nested optional POP, choice of DROP|PUSH) x failing continuation x 5 probe suffixes that make any leaked or lost entry change acceptance, under normal / atomic / compound / non-atomic rules, + seeded random stack grammars. Decisive: verdict, offset (parse and check path) and the final stack contents against the immutable-stack denotation (M1, M2).")


def check_C06(tier, seed):
    ctx = Ctx("C06", tier, seed)
    grams = grams_for("C06", tier, seed)
    ctx.notes["grammars"] = len(grams)
    run_generic(ctx, "c06", grams, "snP", cmp_c06)
    return ctx.finish(rule=RULE_A + "Family: psh{,4} ~ ';' ~ OP ~ EOI for OP in PEEK[a..b], PEEK[a..], PEEK[..b] (a, b in -3..3 quick / -6..6 thorough), PEEK, POP, DROP, PEEK_ALL, POP_ALL and combinations, in normal / atomic / compound / non-atomic rules; pushed words a, bb, 'c ' (with implicit skip inside PUSH); inputs = stack words followed by every sub-slice in both orders and single edits. Decisive: verdict, offset, final stack, no panic.")


def check_C07(tier, seed):
    ctx = Ctx("C07", tier, seed)
    grams = grams_for("C07", tier, seed)
    ctx.notes["grammars"] = len(grams)
    rows = run_generic(ctx, "c07", grams, "sP", cmp_c07)
    forms_pass(ctx, "c07f", cmp_c07, tier)
    # the raw-AST path builds repetition nodes with their own SKIP argument per rule kind: model on the source AST
    run_generic(ctx, "c07s", families.fam_rawkinds(tier), "s", cmp_c07, ast="src", with_pest=False)
    import tracechk
    sub = [dict(g) for g in grams if tracechk.eligible(g)]
    tracechk.validate(ctx, "c07", sub[::3] if tier == "quick" else sub, seed, 4 if tier == "quick" else 20, rows=rows)
    return ctx.finish(rule=RULE_A + "Family: chains of rule kinds k1 -> k2 -> k3 (5^3, sampled in quick) around a sequence body and a repetition body x {no skip rule, WHITESPACE, COMMENT, both}; inputs = sentences with every combination of skippable text in each gap (also leading / trailing); + seeded random grammars with WHITESPACE / COMMENT of all five kinds. M6: a skip step only from a sequence / repetition(i>0) / trailing position and only in non-atomic context. Decisive: verdict, offset (parse and check path) and token spans.")


COMPARE_EXTRA = {"C05": (cmp_c05, "sP", True, "core"), "C06": (cmp_c06, "sP", True, "core"), "C07": (cmp_c07, "sP", True, "core")}
def _text(name):
    def f(tier, seed):
        import textchk
        return getattr(textchk, name)(tier, seed)
    return f


CHECKS = {"C20": _text("check_C20"), "C18": _text("check_C18"), "C17": _text("check_C17"), "C16": _text("check_C16"), "C19": _text("check_C19"), "C11": _text("check_C11"), "C15": _text("check_C15"), "C14": _text("check_C14"), "C12": _text("check_C12"), "C13": _text("check_C13"), "C05": check_C05, "C06": check_C06, "C07": check_C07, "C01": check_C01, "C02": check_C02, "C03": check_C03, "C04": check_C04, "C08": check_C08, "C09": check_C09, "C10": check_C10}
