"""Family `raw` (C19): the runtime's combinators instantiated directly, next to the model grammar that denotes them.
No .pest text is involved: the JSON AST is written here, the Rust types are written here, cell by cell."""
import itertools
from vcommon import *

S = lambda s: {"t": "str", "s": cps(s)}
CALL = lambda n: {"t": "call", "n": n}
REP = lambda e, mn, mx: {"t": "rep", "k": "repminmax", "e": e, "min": mn, "max": mx}
SEQ = lambda *xs: {"t": "seq", "xs": list(xs)}
ALT = lambda *xs: {"t": "alt", "xs": list(xs)}
OPT = lambda e: {"t": "opt", "e": e}
PUSH = lambda e: {"t": "push", "e": e}

# element kinds: (name, model expr, rust type with SKIP placeholder irrelevant)
ELEMS = {
    "str": (S("a"), "Str<Sa>"),
    "alt": (ALT(S("a"), S("bc")), "Choice2<Str<Sa>, Str<Sbc>>"),
    "rep": (REP(S("a"), 1, 2), "RepeatMinMax<Skipped<Str<Sa>, Ws<'i>, @SK@>, 1, 2>"),       # nested repetition a{1,2} with the same SKIP
    "pop": (CALL("POP"), "POP<'i>"),
    "drop": (CALL("DROP"), "DROP"),
    "push": (PUSH(S("a")), "Push<Str<Sa>>"),
    # an element that touches the stack and then fails ("a" pushed, "b" missing): only the enclosing repetition / option restores
    "pushb": (CALL("pb"), "(Push<Str<Sa>>, Str<Sb>)"),
    # pops an entry pushed before the repetition, pushes another text, then fails: the restore must bring the old entry back
    "swap": (CALL("sw"), "(DROP, (Push<Str<Sb>>, Str<Sc>))"),
    # an optional inside the element pops an entry pushed before the cell; the element then fails: Option / repetition restore by value
    "dropc": (CALL("dc"), "(Option<DROP>, Str<Sc>)"),
    # stack slices with negative bounds as elements: -k with exactly k entries on the stack is the bottom of the stack
    "pk1": ({"t": "peekslice", "a": -1, "hasb": False, "b": 0}, "PeekSlice1<-1>"),
    "pk2": ({"t": "peekslice", "a": -2, "hasb": True, "b": -1}, "PeekSlice2<-2, -1>"),
    # an element that can match empty without touching the stack: a bounded repetition still records every iteration up to MAX
    # (unbounded ones never return: no cell)
    "opta": (OPT(S("a")), "Option<Str<Sa>>"),
}


def cells(tier):
    out = []
    rng = range(0, 5)
    for ek in ELEMS:
        for skip in (0, 1):
            for mn in rng:
                for mx in rng:
                    out.append(dict(kind="minmax", ek=ek, skip=skip, mn=mn, mx=mx))
                if ek not in ("opta", "pk1", "pk2"):
                    out.append(dict(kind="min", ek=ek, skip=skip, mn=mn, mx=-1))
    for ek in ("str", "alt", "pop", "pushb", "dropc", "pk1"):
        for n in range(0, 4):
            out.append(dict(kind="array", ek=ek, skip=0, mn=n, mx=n))
        out.append(dict(kind="atomicrepeat", ek=ek, skip=0, mn=0, mx=-1))
        out.append(dict(kind="option", ek=ek, skip=0, mn=0, mx=1))
        out.append(dict(kind="pair", ek=ek, skip=0, mn=2, mx=2))
    for n in range(0, 4):
        out.append(dict(kind="skipchar", ek="any", skip=0, mn=n, mx=n))
    if tier == "quick":
        keep = []
        for i, c in enumerate(out):
            small = c["mn"] <= 2 and c["mx"] <= 2
            if c["kind"] != "minmax" or c["ek"] in ("str", "pop") or (c["ek"] in ("pushb", "swap", "opta", "dropc", "pk1", "pk2") and small) or (c["mn"] + 2 * c["mx"] + c["skip"]) % 3 == 0:
                keep.append(c)
        out = keep
    for i, c in enumerate(out):
        c["id"] = "c%d" % i
    return out


def model_and_type(c):
    """returns (model expr of the cell, rust type of the cell, count closure)"""
    if c["ek"] == "any":
        return REP(CALL("ANY"), c["mn"], c["mn"]), "SkipChar<'i, %d>" % c["mn"], "-1"
    e, ty = ELEMS[c["ek"]]
    sk = c["skip"]
    ty = ty.replace("@SK@", str(sk))
    k = c["kind"]
    if k == "minmax":
        return REP(e, c["mn"], c["mx"]), "RepeatMinMax<Skipped<%s, Ws<'i>, %d>, %d, %d>" % (ty, sk, c["mn"], c["mx"]), "{n}.content.len() as i64"
    if k == "min":
        return REP(e, c["mn"], -1), "RepeatMin<Skipped<%s, Ws<'i>, %d>, %d>" % (ty, sk, c["mn"]), "{n}.content.len() as i64"
    if k == "array":
        return REP(e, c["mn"], c["mn"]), "[%s; %d]" % (ty, c["mn"]), "{n}.len() as i64"
    if k == "atomicrepeat":
        return REP(e, 0, -1), "AtomicRepeat<%s>" % ty, "{n}.content.len() as i64"
    if k == "option":
        return OPT(e), "Option<%s>" % ty, "{n}.is_some() as i64"
    if k == "pair":
        return SEQ(e, e), "(%s, %s)" % (ty, ty), "2"
    raise ValueError(c)


def build(tier):
    cs = cells(tier)
    rules = [{"name": "WHITESPACE", "ty": "silent", "expr": S(" ")}, {"name": "pb", "ty": "atomic", "expr": SEQ(PUSH(S("a")), S("b"))},
             {"name": "sw", "ty": "atomic", "expr": SEQ(CALL("DROP"), PUSH(S("b")), S("c"))},
             {"name": "dc", "ty": "atomic", "expr": SEQ(OPT(CALL("DROP")), S("c"))}]
    arms = []
    for c in cs:
        cell, ty, cnt = model_and_type(c)
        sk = c["skip"]
        stacky = c["ek"] in ("pop", "drop", "swap", "dropc", "pk1", "pk2")
        if stacky:
            # PUSH("a"){,3} ~ ";" ~ cell   with the same SKIP everywhere, exactly the generated shape
            body = SEQ(REP(PUSH(S("a")), 0, 3), S(";"), cell)
            full = "Seq3<Skipped<RepeatMinMax<Skipped<Push<Str<Sa>>, Ws<'i>, %d>, 0, 3>, Ws<'i>, %d>, Skipped<Str<Ssemi>, Ws<'i>, %d>, Skipped<%s, Ws<'i>, %d>>" % (sk, sk, sk, ty, sk)
            cnt2 = "|n| { let c = &n.content.2.matched; let _ = c; %s }" % cnt.replace("{n}", "c")
        else:
            body = cell
            full = ty
            cnt2 = "|n| { let _ = n; %s }" % cnt.replace("{n}", "n")
        c["stacky"] = stacky
        rules.append({"name": c["id"], "ty": "normal" if sk else "atomic", "expr": body})
        c["nf"] = (not stacky) and c["mn"] == 0 and c["kind"] in ("min", "minmax", "atomicrepeat")
        arms.append('        "%s" => hcommon::observe_raw%s::<Rule, %s>(job, %s),' % (c["id"], "_nf" if c["nf"] else "", full, cnt2))
    src = """#![allow(non_camel_case_types, dead_code, unused_imports, clippy::all)]
use hcommon::Job;
use pest_typed::choices::Choice2;
use pest_typed::predefined_node::*;
use pest_typed::sequence::Seq3;
use pest_typed::StringWrapper;
use serde_json::{json, Value};

#[derive(Clone, Copy, Debug, Eq, Hash, Ord, PartialEq, PartialOrd)]
pub enum Rule {
    EOI,
    x,
}
macro_rules! sw {
    ($n:ident, $s:literal) => {
        #[derive(Clone, Hash, PartialEq, Eq)]
        pub struct $n;
        impl StringWrapper for $n {
            const CONTENT: &'static str = $s;
        }
    };
}
sw!(Sa, "a");
sw!(Sbc, "bc");
sw!(Sb, "b");
sw!(Sc, "c");
sw!(Ssp, " ");
sw!(Ssemi, ";");
type Ws<'i> = AtomicRepeat<Str<Ssp>>;

fn dispatch<'i>(job: &'i Job) -> Value {
    match job.rule.as_str() {
%s
        _ => json!({"unknown": true}),
    }
}

fn main() {
    hcommon::run_main(|job| dispatch(job));
}
""" % "\n".join(arms)
    gram = {"id": "raw", "valid": True, "rules_src": rules, "rules_opt": rules, "props": {}, "text": "(raw combinators; no grammar text)"}
    return cs, gram, src
