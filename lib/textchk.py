"""C12 / C13 / C14 / C15: text and tree specifications (TextPos, TextSpan, TextDisplay, TreeWalk)."""
import os, json, random, subprocess
from vcommon import *
import peg, famgen
from props import Ctx, Known


def textrun_bin():
    famgen.sync_workspace()
    p, b = build_bin("textrun")
    if p.returncode != 0:
        raise ToolError("textrun build failed:\n" + (p.stdout or "")[-3000:])
    return b


def run_text(binp, jobs, procs=12):
    import threading
    res = {}
    chunks = [jobs[i::procs] for i in range(procs)]

    def work(chunk):
        p = subprocess.run([binp], input="".join(json.dumps(j) + "\n" for j in chunk), stdout=subprocess.PIPE, stderr=subprocess.DEVNULL, text=True)
        for line in p.stdout.splitlines():
            v = json.loads(line)
            res[v["idx"]] = v["obs"]
    ths = [threading.Thread(target=work, args=(c,)) for c in chunks if c]
    [t.start() for t in ths]
    [t.join() for t in ths]
    return res


def tlc_text(ctx, module, cfg, tag, env, workers=12):
    recs, st = peg.run_tlc("", tag, cfg=cfg, module=module, extra_env=env, workers=workers)
    if not st["ok"]:
        raise ToolError("TLC did not complete cleanly on %s:\n%s" % (module, st.get("tail", "")[-3000:]))
    ctx.add_stats(st)
    ctx.notes.setdefault("tlc_runs", []).append({"module": module, "states": st.get("states"), "records": len(recs), "wall_s": st["wall_s"], "env": env})
    return recs


def check_C12(tier, seed):
    ctx = Ctx("C12", tier, seed)
    L = 5 if tier == "quick" else 7
    recs = tlc_text(ctx, "TextPos.tla", "TextPos.cfg", "c12", {"VERIF_MAXLEN": str(L)})
    binp = textrun_bin()
    jobs = [{"idx": i, "s": r["s"], "mode": "pos"} for i, r in enumerate(recs)]
    obs = run_text(binp, jobs)
    drift = 0
    for i, r in enumerate(recs):
        o = obs.get(i)
        ctx.cov["evaluations"] += 1
        if len(r["s"]) > 0:
            ctx.cov["distinct_nontrivial"] += 1
        if o is None or "panic" in o:
            ctx.violation("Position API panicked / no result on %r" % uncps(r["s"]), {"kind": "text", "string": uncps(r["s"]), "cps": r["s"], "observed": o})
            continue
        if o["p_at"] != r["at"]:
            drift += 1
            ctx.notes.setdefault("spec_drift_samples", []).append({"s": r["s"], "model": r["at"], "pest": o["p_at"]})
        if o["at"] != r["at"] or o["bad"]:
            k = next((k for k in range(min(len(o["at"]), len(r["at"]))) if o["at"][k] != r["at"][k]), None)
            ctx.violation("Position::line_col/line_of on %r: expected %s observed %s (rows [offset,line,col,line_start,line_end])" % (
                uncps(r["s"]), r["at"][k] if k is not None else r["at"], o["at"][k] if k is not None else (o["at"], o["bad"])),
                {"kind": "text", "string": uncps(r["s"]), "cps": r["s"], "expected": r["at"], "observed": o["at"], "non_boundary_accepted": o["bad"]})
        if len(ctx.cov["samples"]) < 3 and len(r["s"]) == L and 10 in r["s"]:
            ctx.cov["samples"].append({"string": r["s"], "rows[offset,line,col,line_start,line_end]": r["at"]})
    if drift:
        raise ToolError("SPEC-DRIFT: TextPos disagrees with pest::Position on %d strings: %s" % (drift, json.dumps(ctx.notes["spec_drift_samples"][:3])))
    ctx.notes["pest_witness_agree"] = len(recs)
    # direction (B): long random texts recorded from the real code, validated by TLC against the spec
    rnd = random.Random(seed)
    n = 150 if tier == "quick" else 1500
    alpha = [10, 13, 97, 233, 20013, 128512, 32, 10, 13]
    texts = []
    for k in range(n):
        ln = rnd.choice([20, 40, 80, 160]) if tier == "quick" else rnd.choice([40, 80, 160, 400])
        texts.append([rnd.choice(alpha) for _ in range(ln)])
    obs2 = run_text(binp, [{"idx": i, "s": t, "mode": "pos"} for i, t in enumerate(texts)])
    d = peg.tmpdir("c12")
    tp = os.path.join(d, "trace.ndjson")
    with open(tp, "w") as f:
        for i, t in enumerate(texts):
            f.write(json.dumps({"s": t, "at": obs2[i]["at"]}) + "\n")
    _, st = peg.run_tlc("", "c12", cfg="TextPosTrace.cfg", module="TextPosTrace.tla", extra_env={"VERIF_TRACE": tp, "VERIF_MAXLEN": "0"}, workers=1)
    ctx.add_stats(st)
    if not st["ok"]:
        # which record?  re-evaluate in python terms: report the first text as replay material
        ctx.violation("trace of Position on long random texts rejected by TextPosTrace (see TLC output %s)" % st["out"],
                      {"kind": "trace", "trace": tp, "tlc_tail": st.get("tail", "")[-1500:]})
    else:
        ctx.cov["traces_validated_against_impl"] += len(texts)
        ctx.cov["evaluations"] += len(texts)
    ctx.cov["traces_validated_against_impl"] += len(recs)
    ctx.cov["exhaustive"] = True
    return ctx.finish(rule="TextPos.tla grows every string up to length %d over {LF, CR, 1-, 2-, 3-, 4-byte char} (one state each; scanner vs line_col-loop formulation compared in every state) and prints (line, col, line start, line end) for every position; Position::line_col / line_of are evaluated at every byte offset (non-boundaries must be refused) and compared; pest::Position is the witness of the spec; + long random texts recorded from the real code and validated by TLC (TextPosTrace). non-trivial = non-empty string" % L)


def check_C13(tier, seed):
    ctx = Ctx("C13", tier, seed)
    L = 4 if tier == "quick" else 6
    TL = 3 if tier == "quick" else 4
    recs = tlc_text(ctx, "TextSpan.tla", "TextSpan.cfg", "c13", {"VERIF_MAXLEN": str(L), "VERIF_TABLELEN": str(TL)})
    binp = textrun_bin()
    jobs = [{"idx": i, "s": r["s"], "mode": "span", "table": "get" in r} for i, r in enumerate(recs)]
    obs = run_text(binp, jobs)
    drift = 0
    for i, r in enumerate(recs):
        o = obs.get(i)
        ctx.cov["evaluations"] += len(r["spans"])
        ctx.cov["distinct_nontrivial"] += sum(1 for a, b in r["spans"] if b > a)
        if o is None or "panic" in o:
            ctx.violation("Span API panicked on %r" % uncps(r["s"]), {"kind": "text", "string": uncps(r["s"]), "cps": r["s"], "observed": o})
            continue
        if o["p_spans"] != r["spans"] or o["p_lines"] != r["lines"] or o.get("p_get_same") is False and False:
            drift += 1
            ctx.notes.setdefault("spec_drift_samples", []).append({"s": r["s"], "model": [r["spans"], r["lines"]], "pest": [o["p_spans"], o["p_lines"]]})
        for field, what in (("spans", "Span::new validity matrix"), ("lines", "lines / lines_span"), ("get", "get (accepted x..y per span)"), ("merge", "merge_spans table")):
            if field in r and o.get(field) != r[field]:
                ctx.violation("%s on %r: expected %s observed %s" % (what, uncps(r["s"]), json.dumps(r[field])[:160], json.dumps(o.get(field))[:160]),
                              {"kind": "text", "string": uncps(r["s"]), "cps": r["s"], "field": field, "expected": r[field], "observed": o.get(field), "spans": r["spans"]})
                break
        if o["misc"]:
            ctx.violation("Span accessor inconsistency on %r: %s" % (uncps(r["s"]), json.dumps(o["misc"])[:200]), {"kind": "text", "string": uncps(r["s"]), "cps": r["s"], "observed": o["misc"]})
        if "get" in r and (o.get("p_get_same") is False or o.get("p_merge_same") is False):
            ctx.notes["pest_differs_from_typed_on_get_or_merge"] = ctx.notes.get("pest_differs_from_typed_on_get_or_merge", 0) + 1
        if len(ctx.cov["samples"]) < 2 and len(r["s"]) == 3 and 10 in r["s"] and "get" in r:
            ctx.cov["samples"].append({"string": r["s"], "spans": r["spans"], "lines": r["lines"], "get_of_full_span": r["get"][len(r["s"])] if len(r["get"]) > len(r["s"]) else None})
    if drift:
        raise ToolError("SPEC-DRIFT: TextSpan disagrees with pest::Span on %d strings: %s" % (drift, json.dumps(ctx.notes["spec_drift_samples"][:2])))
    ctx.cov["traces_validated_against_impl"] += len(recs)
    ctx.cov["exhaustive"] = True
    return ctx.finish(rule="TextSpan.tla: every string up to length %d over {LF, CR, 1-, 2-, 3-byte char}; per string the validity matrix of Span::new over ALL byte pairs (incl. non-boundaries and out-of-range), lines/lines_span of every valid span, and for strings up to length %d the accepted ranges of get (four range forms, all x, y up to len+2) and the merge_spans table of all span pairs; invariants LinesAreLines and MergeIsHull state the property on the spec; pest::Span is the witness. evaluations = valid spans; non-trivial = non-empty spans" % (L, TL))


def _norm_disp(o):
    """runner record -> the spec's shape (text as code points)"""
    def conv(x):
        return {"nums": [[n, cps(t)] for n, t in x["nums"]], "dots": x["dots"], "marks": x["marks"]}
    return conv(o)


def check_C14(tier, seed):
    ctx = Ctx("C14", tier, seed)
    L = 4 if tier == "quick" else 6
    # strings with many lines (more than five lines shown, '...' row), incl. wide characters and a final line without LF
    rnd = random.Random(3)
    extra = []
    for nl in range(5, 10):
        for k in range(3 if tier == "quick" else 12):
            t = []
            for _ in range(nl):
                t += [rnd.choice([97, 20013, 9, 233, 13]) for _ in range(rnd.choice([0, 1, 2]))] + [10]
            if k % 2:
                t += [97]
            extra.append(t)
    d = peg.tmpdir("c14")
    ep = os.path.join(d, "extra.json")
    json.dump(extra, open(ep, "w"))
    env = {"VERIF_MAXLEN": str(L), "VERIF_EXTRA": ep, "VERIF_DEV": ""}
    recs = tlc_text(ctx, "TextDisplay.tla", "TextDisplay.cfg", "c14", env)
    # strings reached both as extra initial state and by growth are printed twice: dedupe
    seen = {}
    for r in recs:
        seen[tuple(r["s"])] = r
    recs = list(seen.values())
    binp = textrun_bin()
    obs = run_text(binp, [{"idx": i, "s": r["s"], "mode": "disp"} for i, r in enumerate(recs)])
    if obs and obs[0]["widths"] != [1, 1, 2, 1, 1, 1]:
        raise ToolError("unicode-width gives %s for [a, e-acute, CJK, LF-picture, CR-picture, TAB-picture]; the spec assumes [1,1,2,1,1,1]" % obs[0]["widths"])
    mism = []
    for i, r in enumerate(recs):
        o = obs.get(i)
        if o is None or "panic" in o:
            ctx.violation("display runner failed on %r" % uncps(r["s"]), {"kind": "text", "string": uncps(r["s"]), "cps": r["s"]})
            continue
        for kind, key in (("spans", ("a", "b")), ("poss", ("p",))):
            for e, x in zip(r[kind], o[kind]):
                ctx.cov["evaluations"] += 1
                if len(r["s"]) > 1:
                    ctx.cov["distinct_nontrivial"] += 1
                ident = {k: e[k] for k in key}
                if any(e[k] != x.get(k) for k in key):
                    raise ToolError("span enumeration order differs between spec and runner on %r" % r["s"])
                if x.get("panic"):
                    mism.append((r, kind, ident, e, "PANIC"))
                    continue
                got = _norm_disp(x)
                exp = {"nums": e["nums"], "dots": e["dots"], "marks": e["marks"]}
                if x["other"] or got != exp:
                    mism.append((r, kind, ident, exp, got if not x["other"] else {"unparsed": x["other"], **got}))
        if len(ctx.cov["samples"]) < 2 and len(r["s"]) == 3 and 10 in r["s"][:2]:
            ctx.cov["samples"].append({"string": r["s"], "span_layouts": r["spans"][:4]})
    if mism:
        known = [k for k in __import__("props").load_known() if k["property"] == "C14" and k["status"] == "known"]
        devrec = {}
        if known:
            env2 = dict(env, VERIF_DEV=known[0]["explained_by"]["deviation"])
            for r in tlc_text(ctx, "TextDisplay.tla", "TextDisplay.cfg", "c14", env2):
                devrec[tuple(r["s"])] = r
        for r, kind, ident, exp, got in mism:
            explained = False
            dr = devrec.get(tuple(r["s"]))
            if dr is not None and got != "PANIC":
                for e in dr[kind]:
                    if all(e[k] == ident[k] for k in ident):
                        explained = {"nums": e["nums"], "dots": e["dots"], "marks": e["marks"]} == got
                        # the finding is about offsets that are the first byte of a line >= 2 only
                        a = ident.get("a", ident.get("p"))
                        explained = explained and kind == "spans" and a > 0 and uncps(r["s"]).encode()[a - 1:a] == b"\n"
            if explained:
                t = known[0]["title"]
                ctx.known_hits[t] = ctx.known_hits.get(t, 0) + 1
            else:
                ctx.violation("Display of %s %s of %r: expected %s observed %s" % (kind[:-1], ident, uncps(r["s"]), json.dumps(exp)[:150], json.dumps(got)[:150]),
                              {"kind": "text", "string": uncps(r["s"]), "cps": r["s"], "what": kind, "at": ident, "expected": exp, "observed": got})
    ctx.cov["traces_validated_against_impl"] += ctx.cov["evaluations"]
    ctx.cov["exhaustive"] = True
    return ctx.finish(rule="TextDisplay.tla: every string up to length %d over {LF, CR, TAB, ASCII letter, wide CJK char, 2-byte letter} + %d LF-rich strings of 5..9 lines; for every span (all boundary pairs) and every position the expected layout: which lines are numbered (number, pictured text), the '...' row, and the marker rows (character, first display cell, count); to_string() is run under catch_unwind and parsed into the same structure. evaluations = (string, span / position) pairs; non-trivial = strings longer than one character" % (L, len(extra)))


def _bfs_from_pre(pre):
    """level-order of a pre-order token list [[r,s,e,d]...] (python mirror used only for non-Dyck grammars)"""
    kids = {}
    stack = []
    for i, t in enumerate(pre):
        while stack and pre[stack[-1]][3] >= t[3]:
            stack.pop()
        if stack:
            kids.setdefault(stack[-1], []).append(i)
        stack.append(i)
    out, level = [], [0] if pre else []
    while level:
        out += level
        level = [k for n in level for k in kids.get(n, [])]
    return [pre[i][:3] for i in out], kids


def _render(pre, text):
    kids = _bfs_from_pre(pre)[1]
    lines = []
    for i, (r, s, e, d) in enumerate(pre):
        if kids.get(i):
            lines.append("    " * d + r)
        else:
            lines.append("    " * d + r + " " + json.dumps(text.encode()[s:e].decode(), ensure_ascii=False))
    return "".join(l + "\n" for l in lines)


def check_C15(tier, seed):
    import props, families
    ctx = Ctx("C15", tier, seed)
    N = 5 if tier == "quick" else 7
    recs = tlc_text(ctx, "TreeWalk.tla", "TreeWalk.cfg", "c15", {"VERIF_MAXNODES": str(N)})
    # (1) every ordered tree: the Dyck word is parsed by t = { "(" ~ t* ~ ")" } (and kind variants) and walked
    dy = families.fam_dyck(tier)[0]
    dy["inputs"] = [r["w"] for r in recs]
    dy["entries"] = ["t", "n"]
    dy["tree_rules"] = ["t", "n", "u", "v", "c", "top"]
    dy["pair_rules"] = ["a"]
    # (2) other grammars: the walk must enumerate exactly the model's pruned token tree
    others = families.fam_ops(tier)[:: (6 if tier == "quick" else 2)] + families.fam_kinds(tier)[:: (20 if tier == "quick" else 4)] + families.fam_dyck_inputs(tier)
    others[-1]["id"] = "dy1"
    grams = [dy] + others
    path, corpus = peg.make_corpus(grams, "c15")
    for g, c in zip(grams, corpus):
        if "tree_rules" not in g:
            g["tree_rules"] = [n for n, k in c["kinds"].items() if k in ("normal", "compound", "nonatomic")]
            g["pair_rules"] = [n for n, k in c["kinds"].items() if k == "atomic"]
    rows = props.run_generic(ctx, "c15", grams, "sT", lambda rec, job, obs, gram: [], with_pest=False)
    byw = {tuple(r["w"]): r for r in recs}
    for rec, job, obs, gram in rows:
        if not rec["ok"]:
            continue
        pair, tree = obs.get("pair"), obs.get("tree")
        if pair is None:
            continue     # silent rule: no Pair API
        text = uncps(job["inp"])
        exp_pre = [t for t in rec["ptoks"]]
        d = []
        if "panic" in pair or not pair.get("ok"):
            d.append(("pair api", "a result", pair))
        else:
            if pair["token"] != exp_pre:
                d.append(("as_token (pre-order flattening)", exp_pre, pair["token"]))
            if pair["thin"] != exp_pre:
                d.append(("as_thin_token", exp_pre, pair["thin"]))
            kids = [t[:3] for t in exp_pre if t[3] == 1]
            if pair["kids"] != kids:
                d.append(("children()", kids, pair["kids"]))
        if tree is not None and not d:
            if "panic" in tree or not tree.get("ok"):
                d.append(("tree api", "a result", tree))
            else:
                bfs, _ = _bfs_from_pre(exp_pre)
                if tree["pre"] != exp_pre:
                    d.append(("iterate_pre_order", exp_pre, tree["pre"]))
                elif [t[:3] for t in tree["lvl"]] != bfs:
                    d.append(("iterate_level_order", bfs, [t[:3] for t in tree["lvl"]]))
                elif tree["render"] != _render(exp_pre, text):
                    d.append(("format_as_tree", _render(exp_pre, text), tree["render"]))
                elif not tree["iter_ok"] or tree["stop"] != [min(2, len(exp_pre)), len(exp_pre) >= 2]:
                    d.append(("callback error must stop the walk", [min(2, len(exp_pre)), len(exp_pre) >= 2], tree["stop"]))
                # Dyck trees: compare with TreeWalk's machines directly
                tw = byw.get(tuple(job["inp"]))
                if tw is not None and job["g"] == "dy0" and job["rule"] == "t" and not d:
                    if [t[1:] for t in tree["pre"]] != tw["pre"]:
                        d.append(("iterate_pre_order vs TreeWalk", tw["pre"], [t[1:] for t in tree["pre"]]))
                    if [t[1:3] for t in tree["lvl"]] != tw["lvl"]:
                        d.append(("iterate_level_order vs TreeWalk", tw["lvl"], [t[1:3] for t in tree["lvl"]]))
                    if [t[1:3] for t in pair["kids"]] != tw["kids"]:
                        d.append(("children vs TreeWalk", tw["kids"], [t[1:3] for t in pair["kids"]]))
                    ctx.notes["dyck_trees_walked"] = ctx.notes.get("dyck_trees_walked", 0) + 1
        if d:
            f, e, o = d[0]
            ctx.violation("%s: %s rule %s input %r: expected %s observed %s" % (f, gram["id"], job["rule"], text, json.dumps(e)[:140], json.dumps(o)[:140]),
                          props.replay_of(rec, job, obs, gram, f, e, o))
    ctx.cov["exhaustive"] = True
    return ctx.finish(rule="TreeWalk.tla builds every ordered tree with at most %d nodes as a balanced word and runs the two-queue level-order and the stack-of-queues pre-order iterators step by step (all interleavings), checking visit order = BFS / DFS, each node once, nesting and sibling order; every such word is parsed with t = { \"(\" ~ t* ~ \")\" } (and a non-atomic variant) and children / as_token / as_thin_token / iterate_pre_order / iterate_level_order / format_as_tree / early stop on callback error are compared; for other grammars (operator and kind-chain families) the same helpers must enumerate exactly the model's pruned token tree" % N)


def check_C11(tier, seed):
    import props, families, illfam
    ctx = Ctx("C11", tier, seed)
    grams = illfam.fam_ill(tier, seed)
    read = peg.pest_read(grams, "c11")
    # errors raised while pest builds its AST (e.g. "cannot repeat 0 times") are not validator verdicts: leave those grammars out
    VAL = ("cannot fail", "non-progressing", "cannot be reached", "left-recursive")
    keep = [i for i, r in enumerate(read) if r["valid"] or all(any(v in e for v in VAL) for e in r["errors"])]
    ctx.notes["grammars_dropped_(rejected_before_validation)"] = len(grams) - len(keep)
    grams = [grams[i] for i in keep]
    read = [read[i] for i in keep]
    # renderer cross-check on every grammar pest accepts: python's JSON AST == pest_meta's source AST
    for g, r in zip(grams, read):
        if r.get("syntax_error"):
            raise ToolError("family ill produced a syntactically invalid grammar: %s\n%s" % (g["text"], r["errors"]))
        if r["valid"] and r["rules_src"] != g["rules"]:
            raise ToolError("AST rendering differs from pest_meta's for %s:\n%s\n%s\n%s" % (g["id"], g["text"], json.dumps(g["rules"]), json.dumps(r["rules_src"])))
    more = families.fam_rand(tier, seed, 6 if tier == "quick" else 40, "plain") + families.fam_rand(tier, seed, 4 if tier == "quick" else 30, "stack")
    mread = peg.pest_read(more, "c11")
    for g, r in zip(more, mread):
        g["rules"] = r["rules_src"]
    grams = grams + more
    read = read + mread
    d = peg.tmpdir("c11")
    cp = os.path.join(d, "ill.json")
    json.dump({"grammars": [{"id": g["id"], "rules": g["rules"]} for g in grams]}, open(cp, "w"))
    recs, st = peg.run_tlc(cp, "c11", cfg="PegValidate.cfg", module="PegValidate.tla")
    if not st["ok"]:
        raise ToolError("TLC failed on PegValidate:\n" + st.get("tail", "")[-3000:])
    ctx.add_stats(st)
    verdict = {r["id"]: r for r in recs}
    drift = [(g, r) for g, r in zip(grams, read) if verdict[g["id"]]["rejected"] == r["valid"]]
    if drift:
        g, r = drift[0]
        raise ToolError("SPEC-DRIFT: PegValidate says rejected=%s but pest_meta says valid=%s (%d grammars), e.g.\n%s\n%s\n%s" % (
            verdict[g["id"]]["rejected"], r["valid"], len(drift), g["text"], verdict[g["id"]]["reasons"], r["errors"]))
    ctx.notes["pest_meta_agrees_with_PegValidate_on"] = len(grams)
    ctx.notes["rejected_by_model"] = sum(1 for r in recs if r["rejected"])
    ctx.notes["accepted_not_wellfounded"] = sum(1 for r in recs if not r["rejected"] and not r["wellfounded"])
    # (i) the generator, called as a library, must panic exactly on the rejected grammars (both AST paths)
    famgen.sync_workspace()
    p, genbin = build_bin("genrun")
    if p.returncode != 0:
        raise ToolError("genrun build failed:\n" + (p.stdout or "")[-3000:])
    for opts in ({}, {"pest_optimizer": False}):
        jobs = [{"idx": i, "text": g["text"], "opts": opts} for i, g in enumerate(grams)]
        obs = run_text(genbin, jobs, procs=8)
        for i, g in enumerate(grams):
            o = obs.get(i)
            ctx.cov["evaluations"] += 1
            v = verdict[g["id"]]
            if v["rejected"]:
                ctx.cov["distinct_nontrivial"] += 1
            if o is None or o["panic"] != v["rejected"]:
                ctx.violation("generator %s a grammar the validator %s (%s; options %s): %s" % (
                    "accepted" if v["rejected"] else "refused", "rejects" if v["rejected"] else "accepts",
                    [x for x in v["reasons"] if x["why"]], opts, g["text"].replace("\n", " ; ")),
                    {"kind": "generator", "grammar": g["text"], "opts": opts, "model": v, "observed": o})
        if len(ctx.cov["samples"]) < 3:
            k = next(i for i, g in enumerate(grams) if verdict[g["id"]]["rejected"])
            ctx.cov["samples"].append({"grammar": grams[k]["text"], "model_verdict": verdict[grams[k]["id"]], "generator": obs.get(k)})
    # (ii)+(iii) accepted and well-founded grammars: compile, and every parse of every input returns.
    wf = [g for g in grams if verdict[g["id"]]["wellfounded"]]
    rnd = random.Random(seed)
    rnd.shuffle(wf)
    wf = wf[: (40 if tier == "quick" else 300)]
    for g in wf:
        g.setdefault("alphabet", cps("ab1 #"))
        g["maxlen"] = 3 if tier == "quick" else 4
    allg = wf
    path, corpus = peg.make_corpus(allg, "c11")
    _, st = peg.run_tlc(path, "c11", cfg="MC_Peg_live.cfg", emit="none", workers=8)
    if not st["ok"]:
        raise ToolError("TLC liveness run (M10: well-founded grammars terminate) failed:\n" + st.get("tail", "")[-3000:])
    ctx.add_stats(st)
    ctx.notes["liveness_states"] = st.get("states")

    def cmp_term(rec, job, obs, gram):
        if obs.get("timeout") or obs.get("crash") is not None or obs.get("missing"):
            return [("parse does not return", "returns", obs)]
        return []      # verdicts are C01's business; here only that the call returns
    rows = props.run_generic(ctx, "c11", allg, "s", cmp_term, with_pest=False)
    ctx.notes["wellfounded_grammars_run"] = len(allg)
    return ctx.finish(rule="PegValidate.tla (pest's validate_ast transcribed: non-failing / non-progressing repetition bodies, unreachable alternatives, WHITESPACE/COMMENT, left recursion) gives a verdict for every grammar of family ill (hand-written ill-formed grammars and near-misses + seeded mutations of random grammars); pest_meta is its witness; pest_typed_generator::derive_typed_parser is called as a library under catch_unwind with and without pest_optimizer and must panic exactly on the rejected ones (evaluations; non-trivial = rejected grammars). Accepted well-founded grammars are compiled (harness build) and TLC checks <>(pc = done) under weak fairness on every (rule, input) (M10) while the real parser runs each under a watchdog.")


def check_C19(tier, seed):
    import props, rawfam
    ctx = Ctx("C19", tier, seed)
    cs, gram, src = rawfam.build(tier)
    L = 5 if tier == "quick" else 7
    plain = all_strings(cps("ab c"), 4 if tier == "quick" else 5) + [cps(x) for x in ["aaaaa", "a a a a", "a a a a a", "aaaaaa", "bcbcbc", "a bc a", "aaaa ", "a  a", "abcabc", "bc bc bc bc bc"]]
    stacky = []
    for npush in range(0, 4):
        for sep in ("", " "):
            pre = sep.join(["a"] * npush) + sep + ";"
            for tail in all_strings(cps("a "), 4 if tier == "quick" else 6):
                stacky.append(cps(pre) + tail)
                stacky.append(cps(pre + sep) + tail)
    # one corpus entry per input class, sharing the rules
    ga = dict(gram, id="rawa", entries=[c["id"] for c in cs if not c["stacky"]], inputs=plain, ctxs=[[[], []]])
    gb = dict(gram, id="rawb", entries=[c["id"] for c in cs if c["stacky"]], inputs=[list(x) for x in {tuple(s) for s in stacky}], ctxs=[[[], []]])
    d = peg.tmpdir("c19")
    path = os.path.join(d, "corpus.json")
    json.dump({"grammars": [ga, gb]}, open(path, "w"))
    recs, st = peg.run_tlc(path, "c19", emit="dv", ast="src")
    if not st["ok"]:
        raise ToolError("TLC failed on the raw family:\n" + st.get("tail", "")[-3000:])
    ctx.add_stats(st)
    # harness crate
    famd = os.path.join(HARNESS, "fam", "raw_0")
    os.makedirs(os.path.join(famd, "src"), exist_ok=True)
    famgen.write_if_changed(os.path.join(famd, "Cargo.toml"), '[package]\nname = "fam_raw_0"\nversion = "0.0.0"\nedition = "2021"\n\n[dependencies]\nhcommon = { path = "../../hcommon" }\npest_typed = { path = "/repo/main" }\nserde_json = "1"\n')
    famgen.write_if_changed(os.path.join(famd, "src", "main.rs"), src)
    famgen.sync_workspace()
    p, bins = build_bins(["fam_raw_0"])
    if p.returncode != 0:
        raise ToolError("raw harness build failed:\n" + (p.stdout or "")[-4000:])
    byid = {"rawa": ga, "rawb": gb}
    cell = {c["id"]: c for c in cs}
    jobs = []
    for r in recs:
        if r["pc"] != "done":
            continue
        jobs.append({"idx": len(jobs), "g": r["g"], "rule": r["rule"], "inp": byid[r["g"]]["inputs"][r["ii"] - 1], "pre": [], "post": [], "modes": "", "_rec": r})
    res = peg.run_runner(bins["fam_raw_0"], [{k: v for k, v in j.items() if k != "_rec"} for j in jobs])
    known = [k for k in props.load_known() if k["property"] == "C19" and k["status"] == "known"]
    for j in jobs:
        rec, o, c = j["_rec"], res.get(j["idx"], {"missing": True}), cell[j["rule"]]
        ctx.cov["evaluations"] += 1
        if rec["ok"] and rec["end"] > 0:
            ctx.cov["distinct_nontrivial"] += 1
        d = []
        if "parse" not in o or "panic" in o.get("parse", {}) or "panic" in o.get("check", {}):
            d.append(("raw combinator", "a result", o))
        else:
            pa, ch = o["parse"], o["check"]
            # element count of the cell: the model's top-level rep record (last "rep"/"opt" at depth 1 for stack cells, first otherwise)
            exp_n = None
            if rec["ok"] and c["kind"] in ("minmax", "min", "array", "atomicrepeat"):
                reps = [e for e in rec["dv"] if e["k"] == "rep" and e["d"] == 1]
                exp_n = (reps[-1] if c["stacky"] else reps[0])["n"] if reps else None
            if pa["ok"] != rec["ok"]:
                d.append(("parse.ok", rec["ok"], pa["ok"]))
            elif rec["ok"]:
                if pa["end"] != rec["end"]:
                    d.append(("parse.end", rec["end"], pa["end"]))
                elif pa["stk"] != rec["stk"]:
                    d.append(("parse.stack", rec["stk"], pa["stk"]))
                elif exp_n is not None and pa["n"] != exp_n:
                    d.append(("element count", exp_n, pa["n"]))
                elif exp_n is not None and c["kind"] == "minmax" and not (c["mn"] <= pa["n"] <= c["mx"]):
                    d.append(("element count within MIN..MAX", [c["mn"], c["mx"]], pa["n"]))
            if not d and (ch["ok"] != pa["ok"] or (pa["ok"] and (ch["end"] != pa["end"] or ch["stk"] != pa["stk"]))):
                d.append(("check vs parse", pa, ch))
        if d:
            f, e, ob = d[0]
            ctx.violation("%s: cell %s on %r: expected %s observed %s" % (f, {k: c[k] for k in ("kind", "ek", "skip", "mn", "mx")}, uncps(j["inp"]), json.dumps(e)[:120], json.dumps(ob)[:160]),
                          {"kind": "raw", "cell": c, "input": uncps(j["inp"]), "input_cps": j["inp"], "field": f, "expected": e, "observed": ob, "model": {k: rec[k] for k in ("ok", "end", "stk")}})
        if len(ctx.cov["samples"]) < 3 and rec["ok"] and rec["end"] > 2:
            ctx.cov["samples"].append({"cell": c, "input": uncps(j["inp"]), "model": {"ok": rec["ok"], "end": rec["end"], "stk": rec["stk"]}})
    ctx.cov["traces_validated_against_impl"] += len(jobs)
    ctx.notes["cells"] = len(cs)
    return ctx.finish(rule="cells = RepeatMinMax / RepeatMin over MIN, MAX in 0..4 (all pairs, also MIN > MAX) x SKIP in {0,1} x element kinds {string, choice, nested repetition, POP, DROP, PUSH}, plus [T;N], (T1,T2), Option<T>, SkipChar<N>, AtomicRepeat<T>; each instantiated directly from the runtime crate next to the model expression it denotes (rep(e,MIN,MAX) in a normal / atomic rule with WHITESPACE = \" \"); stack cells are preceded by PUSH(\"a\"){,3} ~ \";\". TLC runs the machine (M11: never more than MAX iterations; M1) on all inputs up to length %d over {a, b, c, space}; verdict, offset, final stack, element count (from the model's derivation record) and parse = check are compared" % L)
