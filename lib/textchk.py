"""C12 / C13 / C14 / C15: text and tree specifications (TextPos, TextSpan, TextDisplay, TreeWalk)."""
import os, json, random, subprocess
from vcommon import *
import peg, famgen
from props import Ctx, Known


def textrun_bin():
    famgen.sync_workspace()
    p, b = build_bin("textrun")
    if p.returncode != 0:
        raise ToolError("textrun build failed:\n" + (p.stdout or "")[-3000:])
    return b


def run_text(binp, jobs, procs=12):
    import threading
    res = {}
    chunks = [jobs[i::procs] for i in range(procs)]

    def work(chunk):
        p = subprocess.run([binp], input="".join(json.dumps(j) + "\n" for j in chunk), stdout=subprocess.PIPE, stderr=subprocess.DEVNULL, text=True)
        for line in p.stdout.splitlines():
            v = json.loads(line)
            res[v["idx"]] = v["obs"]
    ths = [threading.Thread(target=work, args=(c,)) for c in chunks if c]
    [t.start() for t in ths]
    [t.join() for t in ths]
    return res


def tlc_text(ctx, module, cfg, tag, env, workers=12):
    recs, st = peg.run_tlc("", tag, cfg=cfg, module=module, extra_env=env, workers=workers)
    if not st["ok"]:
        raise ToolError("TLC did not complete cleanly on %s:\n%s" % (module, st.get("tail", "")[-3000:]))
    ctx.add_stats(st)
    ctx.notes.setdefault("tlc_runs", []).append({"module": module, "states": st.get("states"), "records": len(recs), "wall_s": st["wall_s"], "env": env})
    return recs


def check_C12(tier, seed):
    ctx = Ctx("C12", tier, seed)
    L = 5 if tier == "quick" else 7
    recs = tlc_text(ctx, "TextPos.tla", "TextPos.cfg", "c12", {"VERIF_MAXLEN": str(L)})
    binp = textrun_bin()
    jobs = [{"idx": i, "s": r["s"], "mode": "pos"} for i, r in enumerate(recs)]
    obs = run_text(binp, jobs)
    drift = 0
    for i, r in enumerate(recs):
        o = obs.get(i)
        ctx.cov["evaluations"] += 1
        if len(r["s"]) > 0:
            ctx.cov["distinct_nontrivial"] += 1
        if o is None or "panic" in o:
            ctx.violation("Position API panicked / no result on %r" % uncps(r["s"]), {"kind": "text", "string": uncps(r["s"]), "cps": r["s"], "observed": o})
            continue
        if o["p_at"] != r["at"]:
            drift += 1
            ctx.notes.setdefault("spec_drift_samples", []).append({"s": r["s"], "model": r["at"], "pest": o["p_at"]})
        if o["at"] != r["at"] or o["bad"]:
            k = next((k for k in range(min(len(o["at"]), len(r["at"]))) if o["at"][k] != r["at"][k]), None)
            ctx.violation("Position::line_col/line_of on %r: expected %s observed %s (rows [offset,line,col,line_start,line_end])" % (
                uncps(r["s"]), r["at"][k] if k is not None else r["at"], o["at"][k] if k is not None else (o["at"], o["bad"])),
                {"kind": "text", "string": uncps(r["s"]), "cps": r["s"], "expected": r["at"], "observed": o["at"], "non_boundary_accepted": o["bad"]})
        if len(ctx.cov["samples"]) < 3 and len(r["s"]) == L and 10 in r["s"]:
            ctx.cov["samples"].append({"string": r["s"], "rows[offset,line,col,line_start,line_end]": r["at"]})
    if drift:
        raise ToolError("SPEC-DRIFT: TextPos disagrees with pest::Position on %d strings: %s" % (drift, json.dumps(ctx.notes["spec_drift_samples"][:3])))
    ctx.notes["pest_witness_agree"] = len(recs)
    # direction (B): long random texts recorded from the real code, validated by TLC against the spec
    rnd = random.Random(seed)
    n = 150 if tier == "quick" else 400
    alpha = [10, 13, 97, 233, 20013, 128512, 32, 10, 13]
    texts = []
    for k in range(n):
        ln = rnd.choice([20, 40, 80, 160]) if tier == "quick" else rnd.choice([40, 80, 160, 240])
        texts.append([rnd.choice(alpha) for _ in range(ln)])
    obs2 = run_text(binp, [{"idx": i, "s": t, "mode": "pos"} for i, t in enumerate(texts)])
    d = peg.tmpdir("c12")
    tp = os.path.join(d, "trace.ndjson")
    with open(tp, "w") as f:
        for i, t in enumerate(texts):
            f.write(json.dumps({"s": t, "at": obs2[i]["at"]}) + "\n")
    _, st = peg.run_tlc("", "c12", cfg="TextPosTrace.cfg", module="TextPosTrace.tla", extra_env={"VERIF_TRACE": tp, "VERIF_MAXLEN": "0"}, workers=1)
    ctx.add_stats(st)
    if not st["ok"]:
        # which record?  re-evaluate in python terms: report the first text as replay material
        ctx.violation("trace of Position on long random texts rejected by TextPosTrace (see TLC output %s)" % st["out"],
                      {"kind": "trace", "trace": tp, "tlc_tail": st.get("tail", "")[-1500:]})
    else:
        ctx.cov["traces_validated_against_impl"] += len(texts)
        ctx.cov["evaluations"] += len(texts)
    ctx.cov["traces_validated_against_impl"] += len(recs)
    ctx.cov["exhaustive"] = True
    return ctx.finish(rule="TextPos.tla grows every string up to length %d over {LF, CR, 1-, 2-, 3-, 4-byte char} (one state each; scanner vs line_col-loop formulation compared in every state) and prints (line, col, line start, line end) for every position; Position::line_col / line_of are evaluated at every byte offset (non-boundaries must be refused) and compared; pest::Position is the witness of the spec; + long random texts recorded from the real code and validated by TLC (TextPosTrace). non-trivial = non-empty string" % L)


def check_C13(tier, seed):
    ctx = Ctx("C13", tier, seed)
    L = 4 if tier == "quick" else 6
    TL = 3 if tier == "quick" else 4
    recs = tlc_text(ctx, "TextSpan.tla", "TextSpan.cfg", "c13", {"VERIF_MAXLEN": str(L), "VERIF_TABLELEN": str(TL)})
    binp = textrun_bin()
    jobs = [{"idx": i, "s": r["s"], "mode": "span", "table": "get" in r} for i, r in enumerate(recs)]
    obs = run_text(binp, jobs)
    drift = 0
    for i, r in enumerate(recs):
        o = obs.get(i)
        ctx.cov["evaluations"] += len(r["spans"])
        ctx.cov["distinct_nontrivial"] += sum(1 for a, b in r["spans"] if b > a)
        if o is None or "panic" in o:
            ctx.violation("Span API panicked on %r" % uncps(r["s"]), {"kind": "text", "string": uncps(r["s"]), "cps": r["s"], "observed": o})
            continue
        if o["p_spans"] != r["spans"] or o["p_lines"] != r["lines"] or o.get("p_get_same") is False and False:
            drift += 1
            ctx.notes.setdefault("spec_drift_samples", []).append({"s": r["s"], "model": [r["spans"], r["lines"]], "pest": [o["p_spans"], o["p_lines"]]})
        for field, what in (("spans", "Span::new validity matrix"), ("lines", "lines / lines_span"), ("get", "get (accepted x..y per span)"), ("merge", "merge_spans table")):
            if field in r and o.get(field) != r[field]:
                ctx.violation("%s on %r: expected %s observed %s" % (what, uncps(r["s"]), json.dumps(r[field])[:160], json.dumps(o.get(field))[:160]),
                              {"kind": "text", "string": uncps(r["s"]), "cps": r["s"], "field": field, "expected": r[field], "observed": o.get(field), "spans": r["spans"]})
                break
        if o["misc"]:
            ctx.violation("Span accessor inconsistency on %r: %s" % (uncps(r["s"]), json.dumps(o["misc"])[:200]), {"kind": "text", "string": uncps(r["s"]), "cps": r["s"], "observed": o["misc"]})
        if "get" in r and (o.get("p_get_same") is False or o.get("p_merge_same") is False):
            ctx.notes["pest_differs_from_typed_on_get_or_merge"] = ctx.notes.get("pest_differs_from_typed_on_get_or_merge", 0) + 1
        if len(ctx.cov["samples"]) < 2 and len(r["s"]) == 3 and 10 in r["s"] and "get" in r:
            ctx.cov["samples"].append({"string": r["s"], "spans": r["spans"], "lines": r["lines"], "get_of_full_span": r["get"][len(r["s"])] if len(r["get"]) > len(r["s"]) else None})
    if drift:
        raise ToolError("SPEC-DRIFT: TextSpan disagrees with pest::Span on %d strings: %s" % (drift, json.dumps(ctx.notes["spec_drift_samples"][:2])))
    ctx.cov["traces_validated_against_impl"] += len(recs)
    ctx.cov["exhaustive"] = True
    return ctx.finish(rule="TextSpan.tla: every string up to length %d over {LF, CR, 1-, 2-, 3-byte char}; per string the validity matrix of Span::new over ALL byte pairs (incl. non-boundaries and out-of-range), lines/lines_span of every valid span, and for strings up to length %d the accepted ranges of get (four range forms, all x, y up to len+2) and the merge_spans table of all span pairs; invariants LinesAreLines and MergeIsHull state the property on the spec; pest::Span is the witness. evaluations = valid spans; non-trivial = non-empty spans" % (L, TL))


def _norm_disp(o):
    """runner record -> the spec's shape (text as code points)"""
    def conv(x):
        return {"nums": [[n, cps(t)] for n, t in x["nums"]], "dots": x["dots"], "marks": x["marks"]}
    return conv(o)


def check_C14(tier, seed):
    ctx = Ctx("C14", tier, seed)
    L = 4 if tier == "quick" else 6
    # strings with many lines (more than five lines shown, '...' row), incl. wide characters and a final line without LF
    rnd = random.Random(3)
    extra = []
    for nl in range(5, 10):
        for k in range(3 if tier == "quick" else 12):
            t = []
            for _ in range(nl):
                t += [rnd.choice([97, 20013, 9, 233, 13]) for _ in range(rnd.choice([0, 1, 2]))] + [10]
            if k % 2:
                t += [97]
            extra.append(t)
    # every control character has a picture of its own
    ctl = [c for c in range(0, 32) if c != 10] + [127, 32]
    for k in range(0, len(ctl), 3):
        extra.append([97] + ctl[k:k + 3] + [10, 20013] + ctl[k:k + 2])
    d = peg.tmpdir("c14")
    ep = os.path.join(d, "extra.json")
    json.dump(extra, open(ep, "w"))
    env = {"VERIF_MAXLEN": str(L), "VERIF_EXTRA": ep, "VERIF_DEV": ""}
    recs = tlc_text(ctx, "TextDisplay.tla", "TextDisplay.cfg", "c14", env)
    # strings reached both as extra initial state and by growth are printed twice: dedupe
    seen = {}
    for r in recs:
        seen[tuple(r["s"])] = r
    recs = list(seen.values())
    binp = textrun_bin()
    obs = run_text(binp, [{"idx": i, "s": r["s"], "mode": "disp"} for i, r in enumerate(recs)])
    if obs and obs[0]["widths"] != [1, 1, 2, 1, 1, 1]:
        raise ToolError("unicode-width gives %s for [a, e-acute, CJK, LF-picture, CR-picture, TAB-picture]; the spec assumes [1,1,2,1,1,1]" % obs[0]["widths"])
    mism = []
    for i, r in enumerate(recs):
        o = obs.get(i)
        if o is None or "panic" in o:
            ctx.violation("display runner failed on %r" % uncps(r["s"]), {"kind": "text", "string": uncps(r["s"]), "cps": r["s"]})
            continue
        for kind, key in (("spans", ("a", "b")), ("poss", ("p",))):
            for e, x in zip(r[kind], o[kind]):
                ctx.cov["evaluations"] += 1
                if len(r["s"]) > 1:
                    ctx.cov["distinct_nontrivial"] += 1
                ident = {k: e[k] for k in key}
                if any(e[k] != x.get(k) for k in key):
                    raise ToolError("span enumeration order differs between spec and runner on %r" % r["s"])
                if x.get("panic"):
                    mism.append((r, kind, ident, e, "PANIC"))
                    continue
                got = _norm_disp(x)
                exp = {"nums": e["nums"], "dots": e["dots"], "marks": e["marks"]}
                if x["other"] or got != exp:
                    mism.append((r, kind, ident, exp, got if not x["other"] else {"unparsed": x["other"], **got}))
                elif "custom" in x:
                    # custom FormatOption (reachable with the verif re-export only): same text once the brackets are removed, the
                    # span formatter is handed exactly the highlighted pieces of the specification, markers and numbers go to theirs
                    cu = x["custom"]
                    ctx.cov["evaluations"] += 1
                    exp_s = [uncps(h) for h in e["hl"]]
                    exp_m = [ch * n for ch, _, n in e["marks"]]
                    exp_n = set(["|"] + [str(n) for n, _ in e["nums"]])
                    bad = None
                    if cu.get("panic") or cu.get("fmt_error"):
                        bad = ("custom FormatOption", "a rendering", cu)
                    elif not cu["eq"] or cu["nested"]:
                        bad = ("custom FormatOption: text without the brackets", "the default rendering", cu)
                    elif cu["s"] != exp_s:
                        bad = ("custom FormatOption: pieces handed to the span formatter", exp_s, cu["s"])
                    elif cu["m"] != exp_m:
                        bad = ("custom FormatOption: pieces handed to the marker formatter", exp_m, cu["m"])
                    elif not all(t.strip() in exp_n for t in cu["n"]):
                        bad = ("custom FormatOption: pieces handed to the number formatter", sorted(exp_n), cu["n"])
                    if bad:
                        ctx.violation("Display of %s %s of %r: %s: expected %s observed %s" % (kind[:-1], ident, uncps(r["s"]), bad[0], json.dumps(bad[1], ensure_ascii=False)[:150], json.dumps(bad[2], ensure_ascii=False)[:150]),
                                      {"kind": "text", "string": uncps(r["s"]), "cps": r["s"], "what": kind, "at": ident, "field": bad[0], "expected": bad[1], "observed": bad[2]})
        if len(ctx.cov["samples"]) < 2 and len(r["s"]) == 3 and 10 in r["s"][:2]:
            ctx.cov["samples"].append({"string": r["s"], "span_layouts": r["spans"][:4]})
    if mism:
        known = [k for k in __import__("props").load_known() if k["property"] == "C14" and k["status"] == "known"]
        devrec = {}
        if known:
            env2 = dict(env, VERIF_DEV=known[0]["explained_by"]["deviation"])
            for r in tlc_text(ctx, "TextDisplay.tla", "TextDisplay.cfg", "c14", env2):
                devrec[tuple(r["s"])] = r
        for r, kind, ident, exp, got in mism:
            explained = False
            dr = devrec.get(tuple(r["s"]))
            if dr is not None and got != "PANIC":
                for e in dr[kind]:
                    if all(e[k] == ident[k] for k in ident):
                        explained = {"nums": e["nums"], "dots": e["dots"], "marks": e["marks"]} == got
                        # the finding is about offsets that are the first byte of a line >= 2 only
                        a = ident.get("a", ident.get("p"))
                        explained = explained and kind == "spans" and a > 0 and uncps(r["s"]).encode()[a - 1:a] == b"\n"
            if explained:
                t = known[0]["title"]
                ctx.known_hits[t] = ctx.known_hits.get(t, 0) + 1
            else:
                ctx.violation("Display of %s %s of %r: expected %s observed %s" % (kind[:-1], ident, uncps(r["s"]), json.dumps(exp)[:150], json.dumps(got)[:150]),
                              {"kind": "text", "string": uncps(r["s"]), "cps": r["s"], "what": kind, "at": ident, "expected": exp, "observed": got})
    ctx.cov["traces_validated_against_impl"] += ctx.cov["evaluations"]
    ctx.cov["exhaustive"] = True
    return ctx.finish(rule="TextDisplay.tla: every string up to length %d over {LF, CR, TAB, ASCII letter, wide CJK char, 2-byte letter} + %d LF-rich strings of 5..9 lines; for every span (all boundary pairs) and every position the expected layout: which lines are numbered (number, pictured text), the '...' row, and the marker rows (character, first display cell, count); to_string() is run under catch_unwind and parsed into the same structure. evaluations = (string, span / position) pairs; non-trivial = strings longer than one character" % (L, len(extra)))


def _bfs_from_pre(pre):
    """level-order of a pre-order token list [[r,s,e,d]...] (python mirror used only for non-Dyck grammars)"""
    kids = {}
    stack = []
    for i, t in enumerate(pre):
        while stack and pre[stack[-1]][3] >= t[3]:
            stack.pop()
        if stack:
            kids.setdefault(stack[-1], []).append(i)
        stack.append(i)
    out, level = [], [0] if pre else []
    while level:
        out += level
        level = [k for n in level for k in kids.get(n, [])]
    return [pre[i][:3] for i in out], kids


def _render(pre, text):
    kids = _bfs_from_pre(pre)[1]
    lines = []
    for i, (r, s, e, d) in enumerate(pre):
        if kids.get(i):
            lines.append("    " * d + r)
        else:
            lines.append("    " * d + r + " " + json.dumps(text.encode()[s:e].decode(), ensure_ascii=False))
    return "".join(l + "\n" for l in lines)


def check_C15(tier, seed):
    import props, families
    ctx = Ctx("C15", tier, seed)
    N = 5 if tier == "quick" else 7
    recs = tlc_text(ctx, "TreeWalk.tla", "TreeWalk.cfg", "c15", {"VERIF_MAXNODES": str(N)})
    # (1) every ordered tree: the Dyck word is parsed by t = { "(" ~ t* ~ ")" } (and kind variants) and walked
    dy = families.fam_dyck(tier)[0]
    dy["inputs"] = [r["w"] for r in recs]
    dy["entries"] = ["t", "n"]
    dy["tree_rules"] = ["t", "n", "u", "v", "c", "top"]
    dy["pair_rules"] = ["a"]
    # (2) other grammars: the walk must enumerate exactly the model's pruned token tree
    others = families.fam_ops(tier)[:: (6 if tier == "quick" else 2)] + families.fam_kinds(tier)[:: (20 if tier == "quick" else 4)] + families.fam_dyck_inputs(tier)
    others[-1]["id"] = "dy1"
    # non-silent WHITESPACE / COMMENT tokens in front of rule items of sequences, repetitions and choices: sibling order = input order
    tk = dict(id="tk0", text="\n".join(['WHITESPACE = { " " }', 'COMMENT = { "#" ~ (!"#" ~ ANY)* ~ "#" }', "item = { 'a'..'c' }", 'pair = { item ~ "=" ~ item }',
                                         'list = { (item ~ ",")* ~ item? }', 'nest = { "(" ~ (pair | list) ~ ")" ~ item* }', 'cmp = ${ item ~ nest? }', 'top = { SOI ~ nest+ ~ EOI }']),
              alphabet=cps("a= #"), maxlen=3 if tier == "quick" else 4, entries=["item", "pair", "list", "nest", "cmp", "top"],
              inputs=[cps(x) for x in ["a = #c# b", "a #x# = b", "a=#c##d#b", "a , b ,#c# c", "a,#c#b,", "( a = b ) c", "(#x#a #y# = #z# b #w#)#v# c #u# a", "(a,b, c) a b", "( a , #c# b )",
                                        "a(a=b)", "a (a=b)", "(a=b)(b,c,)", " ( a = b ) #e# ( c , ) ", "(a=#c#b)#d#(#e#a,)", "#c#(a=b)"]])
    others.append(tk)
    # the known WHITESPACE/COMMENT finding is C01 / C02's business: leave out the grammars on which it can show, and skip rules as entries
    import tracechk, re as _re
    others = [g for g in others if tracechk.eligible(g)]
    for g in others:
        if not g.get("entries"):
            g["entries"] = [n for n in _re.findall(r"(?m)^\s*(\w+)\s*=", g["text"]) if n not in ("WHITESPACE", "COMMENT")]
    grams = [dy] + others
    path, corpus = peg.make_corpus(grams, "c15")
    for g, c in zip(grams, corpus):
        if "tree_rules" not in g:
            g["tree_rules"] = [n for n, k in c["kinds"].items() if k in ("normal", "compound", "nonatomic")]
            g["pair_rules"] = [n for n, k in c["kinds"].items() if k == "atomic"]
    rows = props.run_generic(ctx, "c15", grams, "sT", lambda rec, job, obs, gram: [], with_pest=False)
    # counted repetitions of a rule that may match empty, compiled with pest_optimizer = false (RepeatMinMax nodes; no skip rules, so
    # the known raw-AST finding cannot show): every iteration is a token, model on the source AST
    tkr = dict(id="tk1", text="\n".join(["num = { '0'..'1'* }", 'exact = { num{3} }', 'most = { num{,2} ~ "!" }', 'betw = { (num ~ ","?){1,3} }', 'cm = ${ num{2} ~ exact? }']),
               alphabet=cps("01,!"), maxlen=3 if tier == "quick" else 4, opts={"pest_optimizer": False}, entries=["exact", "most", "betw", "cm"],
               inputs=[cps(x) for x in ["12", "0,1,", "01,1,0", ",,", "10!", "!", "0101", ""]])
    tkr["tree_rules"] = ["exact", "most", "betw", "cm", "num"]
    tkr["pair_rules"] = []
    rows += props.run_generic(ctx, "c15s", [tkr], "sT", lambda rec, job, obs, gram: [], with_pest=False, ast="src")
    byw = {tuple(r["w"]): r for r in recs}
    for rec, job, obs, gram in rows:
        if not rec["ok"]:
            continue
        pair, tree = obs.get("pair"), obs.get("tree")
        if pair is None:
            continue     # silent rule: no Pair API
        text = uncps(job["inp"])
        exp_pre = [t for t in rec["ptoks"]]
        d = []
        if "panic" in pair or not pair.get("ok"):
            d.append(("pair api", "a result", pair))
        elif pair.get("forms_agree") is False or (isinstance(tree, dict) and tree.get("forms_agree") is False):
            bad = pair if pair.get("forms_agree") is False else tree
            d.append(("the Pair / tree API through the Position and Span forms of the same input", "what the &str form gives",
                      {"pos_form": bad.get("pos_form"), "span_form": bad.get("span_form")}))
        else:
            if pair["token"] != exp_pre:
                d.append(("as_token (pre-order flattening)", exp_pre, pair["token"]))
            if pair["thin"] != exp_pre:
                d.append(("as_thin_token", exp_pre, pair["thin"]))
            kids = [t[:3] for t in exp_pre if t[3] == 1]
            if pair["kids"] != kids:
                d.append(("children()", kids, pair["kids"]))
        if tree is not None and not d:
            if "panic" in tree or not tree.get("ok"):
                d.append(("tree api", "a result", tree))
            else:
                bfs, _ = _bfs_from_pre(exp_pre)
                if tree["pre"] != exp_pre:
                    d.append(("iterate_pre_order", exp_pre, tree["pre"]))
                elif [t[:3] for t in tree["lvl"]] != bfs:
                    d.append(("iterate_level_order", bfs, [t[:3] for t in tree["lvl"]]))
                elif tree["render"] != _render(exp_pre, text):
                    d.append(("format_as_tree", _render(exp_pre, text), tree["render"]))
                elif not tree["iter_ok"] or tree["stop"] != [min(2, len(exp_pre)), len(exp_pre) >= 2]:
                    d.append(("callback error must stop the walk", [min(2, len(exp_pre)), len(exp_pre) >= 2], tree["stop"]))
                # Dyck trees: compare with TreeWalk's machines directly
                tw = byw.get(tuple(job["inp"]))
                if tw is not None and job["g"] == "dy0" and job["rule"] == "t" and not d:
                    if [t[1:] for t in tree["pre"]] != tw["pre"]:
                        d.append(("iterate_pre_order vs TreeWalk", tw["pre"], [t[1:] for t in tree["pre"]]))
                    if [t[1:3] for t in tree["lvl"]] != tw["lvl"]:
                        d.append(("iterate_level_order vs TreeWalk", tw["lvl"], [t[1:3] for t in tree["lvl"]]))
                    if [t[1:3] for t in pair["kids"]] != tw["kids"]:
                        d.append(("children vs TreeWalk", tw["kids"], [t[1:3] for t in pair["kids"]]))
                    ctx.notes["dyck_trees_walked"] = ctx.notes.get("dyck_trees_walked", 0) + 1
        if d:
            f, e, o = d[0]
            ctx.violation("%s: %s rule %s input %r: expected %s observed %s" % (f, gram["id"], job["rule"], text, json.dumps(e)[:140], json.dumps(o)[:140]),
                          props.replay_of(rec, job, obs, gram, f, e, o))
    ctx.cov["exhaustive"] = True
    return ctx.finish(rule="TreeWalk.tla builds every ordered tree with at most %d nodes as a balanced word and runs the two-queue level-order and the stack-of-queues pre-order iterators step by step (all interleavings), checking visit order = BFS / DFS, each node once, nesting and sibling order; every such word is parsed with t = { \"(\" ~ t* ~ \")\" } (and a non-atomic variant) and children / as_token / as_thin_token / iterate_pre_order / iterate_level_order / format_as_tree / early stop on callback error are compared; for other grammars (operator and kind-chain families) the same helpers must enumerate exactly the model's pruned token tree" % N)


def check_C11(tier, seed):
    import props, families, illfam
    ctx = Ctx("C11", tier, seed)
    grams = illfam.fam_ill(tier, seed)
    read = peg.pest_read(grams, "c11")
    # errors raised while pest builds its AST (e.g. "cannot repeat 0 times") are not validator verdicts: leave those grammars out
    VAL = ("cannot fail", "non-progressing", "cannot be reached", "left-recursive")
    keep = [i for i, r in enumerate(read) if r["valid"] or all(any(v in e for v in VAL) for e in r["errors"])]
    ctx.notes["grammars_dropped_(rejected_before_validation)"] = len(grams) - len(keep)
    grams = [grams[i] for i in keep]
    read = [read[i] for i in keep]
    # renderer cross-check on every grammar pest accepts: python's JSON AST == pest_meta's source AST
    for g, r in zip(grams, read):
        if r.get("syntax_error"):
            raise ToolError("family ill produced a syntactically invalid grammar: %s\n%s" % (g["text"], r["errors"]))
        if r["valid"] and r["rules_src"] != g["rules"]:
            raise ToolError("AST rendering differs from pest_meta's for %s:\n%s\n%s\n%s" % (g["id"], g["text"], json.dumps(g["rules"]), json.dumps(r["rules_src"])))
    sr = families.fam_skiprules(tier)
    more = (families.fam_rand(tier, seed, 6 if tier == "quick" else 40, "plain") + families.fam_rand(tier, seed, 4 if tier == "quick" else 30, "stack")
            + families.fam_rand(tier, seed, 4 if tier == "quick" else 30, "ws") + (sr[2::7] if tier == "quick" else sr))
    # skip rules that start with a zero-width predicate: if their body ever ran with implicit skipping on, the skip would re-enter itself
    more += [g for g in sr if g not in more and ('{ !"##"' in g["text"].splitlines()[0] or '{ &"#"' in g["text"].splitlines()[0])][: (6 if tier == "quick" else 40)]
    # stack slices with reversed / out-of-range bounds at some depths, zero-width stack iterations: every parse still returns
    sl = families.fam_slices(tier)
    more += families.fam_trig(tier) + ([dict(g, inputs=g["inputs"][::5]) for g in sl[1:8:3]] if tier == "quick" else [dict(g, inputs=g["inputs"][::8]) for g in sl[::2]])
    mread = peg.pest_read(more, "c11")
    for g, r in zip(more, mread):
        g["rules"] = r["rules_src"]
    grams = grams + more
    read = read + mread
    d = peg.tmpdir("c11")
    cp = os.path.join(d, "ill.json")
    json.dump({"grammars": [{"id": g["id"], "rules": g["rules"]} for g in grams]}, open(cp, "w"))
    recs, st = peg.run_tlc(cp, "c11", cfg="PegValidate.cfg", module="PegValidate.tla")
    if not st["ok"]:
        raise ToolError("TLC failed on PegValidate:\n" + st.get("tail", "")[-3000:])
    ctx.add_stats(st)
    verdict = {r["id"]: r for r in recs}
    drift = [(g, r) for g, r in zip(grams, read) if verdict[g["id"]]["rejected"] == r["valid"]]
    if drift:
        g, r = drift[0]
        raise ToolError("SPEC-DRIFT: PegValidate says rejected=%s but pest_meta says valid=%s (%d grammars), e.g.\n%s\n%s\n%s" % (
            verdict[g["id"]]["rejected"], r["valid"], len(drift), g["text"], verdict[g["id"]]["reasons"], r["errors"]))
    ctx.notes["pest_meta_agrees_with_PegValidate_on"] = len(grams)
    ctx.notes["rejected_by_model"] = sum(1 for r in recs if r["rejected"])
    ctx.notes["accepted_not_wellfounded"] = sum(1 for r in recs if not r["rejected"] and not r["wellfounded"])
    # (i) the generator, called as a library, must panic exactly on the rejected grammars (both AST paths)
    famgen.sync_workspace()
    p, genbin = build_bin("genrun")
    if p.returncode != 0:
        raise ToolError("genrun build failed:\n" + (p.stdout or "")[-3000:])
    for opts, split in (({}, False), ({"pest_optimizer": False}, False), ({}, True)):
        jobs = [{"idx": i, "text": g["text"], "opts": opts, "split": split} for i, g in enumerate(grams)]
        obs = run_text(genbin, jobs, procs=8)
        for i, g in enumerate(grams):
            o = obs.get(i)
            ctx.cov["evaluations"] += 1
            v = verdict[g["id"]]
            if v["rejected"]:
                ctx.cov["distinct_nontrivial"] += 1
            if o is None or o["panic"] != v["rejected"]:
                ctx.violation("generator %s a grammar the validator %s (%s; options %s%s): %s" % (
                    "accepted" if v["rejected"] else "refused", "rejects" if v["rejected"] else "accepts",
                    [x for x in v["reasons"] if x["why"]], opts, "; one #[grammar_inline] per rule" if split else "", g["text"].replace("\n", " ; ")),
                    {"kind": "generator", "grammar": g["text"], "opts": opts, "split_sources": split, "model": v, "observed": o})
        if len(ctx.cov["samples"]) < 3:
            k = next(i for i, g in enumerate(grams) if verdict[g["id"]]["rejected"])
            ctx.cov["samples"].append({"grammar": grams[k]["text"], "model_verdict": verdict[grams[k]["id"]], "generator": obs.get(k)})
    # (ii)+(iii) accepted and well-founded grammars: compile, and every parse of every input returns.
    wf = [g for g in grams if verdict[g["id"]]["wellfounded"]]
    rnd = random.Random(seed)
    rnd.shuffle(wf)
    # (the slice / trigger grammars come last: they are run on the real code, the liveness run keeps to the first grammars)
    wf = ([g for g in wf if g["id"].startswith("sr")] + [g for g in wf if not g["id"].startswith(("sr", "sl", "tg"))][: (40 if tier == "quick" else 300)]
          + [g for g in wf if g["id"].startswith(("sl", "tg"))])
    for g in wf:
        g.setdefault("alphabet", cps("ab1 #"))
        g["maxlen"] = 3 if tier == "quick" else 4
    allg = wf
    liveg = allg[: (30 if tier == "quick" else 150)]
    path, corpus = peg.make_corpus(liveg, "c11")
    ctx.notes["liveness_grammars"] = len(liveg)
    _, st = peg.run_tlc(path, "c11", cfg="MC_Peg_live.cfg", emit="none", workers=8)
    if not st["ok"]:
        raise ToolError("TLC liveness run (M10: well-founded grammars terminate) failed:\n" + st.get("tail", "")[-3000:])
    ctx.add_stats(st)
    ctx.notes["liveness_states"] = st.get("states")

    def cmp_term(rec, job, obs, gram):
        if obs.get("timeout") or obs.get("crash") is not None or obs.get("missing"):
            return [("parse does not return", "returns", obs)]
        # unwinding out of the parser is not a return either (the harness catches the panic per entry point)
        for form in props.forms_of(obs):
            for k in ("pp", "pf", "cp", "cf"):
                o = props.typed_form(obs, form, k)
                if isinstance(o, dict) and "panic" in o:
                    return [("%s.%s: the parse panicked" % (form, k), "Ok or Err", o)]
        return []      # verdicts are C01's business; here only that the call returns
    rows = props.run_generic(ctx, "c11", allg, "s", cmp_term, with_pest=False)
    # ... also when the input is a Position or a Span that ends inside a longer string (every kind of matcher next to the cut)
    props.run_generic(ctx, "c11f", props.forms_grams(tier), "spn", cmp_term, with_pest=False, famname="formsf")
    ctx.notes["wellfounded_grammars_run"] = len(allg)
    # "emits code that compiles" holds under every option: recursion through every operator / rule kind with boxing reduced, both AST paths
    recg = []
    for g in fam_opt(tier):
        if g["id"] in ("op7", "op8", "op0"):
            for k, opts in enumerate([{"box_only_if_needed": True}, {"box_only_if_needed": True, "pest_optimizer": False},
                                      {"box_only_if_needed": True, "emit_rule_reference": True, "emit_tagged_node_reference": True, "do_not_emit_span": True}]):
                recg.append(dict(g, id="%sb%d" % (g["id"], k), opts=opts, maxlen=2))
    # ... and the unusual-but-valid constructs of family odd (escapes, arities of 20, rules named like built-ins) with default options
    import families as _F
    for g in _F.fam_odd(tier):
        recg.append(dict(g, id=g["id"] + "c", opts={}, maxlen=2))
    for ast, sel in (("opt", lambda o: o.get("pest_optimizer", True)), ("src", lambda o: not o.get("pest_optimizer", True))):
        part = [g for g in recg if sel(g["opts"])]
        props.run_generic(ctx, "c11o" + ast, part, "s", cmp_term, with_pest=False, ast=ast)
    ctx.notes["recursive_grammars_compiled_with_reduced_boxing"] = len(recg)
    return ctx.finish(rule="PegValidate.tla (pest's validate_ast transcribed: non-failing / non-progressing repetition bodies, unreachable alternatives, WHITESPACE/COMMENT, left recursion) gives a verdict for every grammar of family ill (hand-written ill-formed grammars and near-misses + seeded mutations of random grammars); pest_meta is its witness; pest_typed_generator::derive_typed_parser is called as a library under catch_unwind with and without pest_optimizer and must panic exactly on the rejected ones (evaluations; non-trivial = rejected grammars). Accepted well-founded grammars are compiled (harness build) and TLC checks <>(pc = done) under weak fairness on every (rule, input) (M10) while the real parser runs each under a watchdog.")


def check_C19(tier, seed):
    import props, rawfam
    ctx = Ctx("C19", tier, seed)
    cs, gram, src = rawfam.build(tier)
    L = 5 if tier == "quick" else 7
    plain = all_strings(cps("ab c"), 4 if tier == "quick" else 5) + [cps(x) for x in ["aaaaa", "a a a a", "a a a a a", "aaaaaa", "bcbcbc", "a bc a", "aaaa ", "a  a", "abcabc", "bc bc bc bc bc", "é", "😀", "aé", "好", "é😀", "好好", "a好b", "ééé", "😀😀😀"]]
    stacky = []
    for npush in range(0, 4):
        for sep in ("", " "):
            pre = sep.join(["a"] * npush) + sep + ";"
            for tail in all_strings(cps("a "), 4 if tier == "quick" else 6) + [cps(x) for x in ["b", "bc", "bcb", "bcbc", "bcbcbc", "b c", "bb", "bca", "ba", "bc bc", "bcba", "c", "cc", "ca", "c c", "ccc", "cb", "c a"]]:
                stacky.append(cps(pre) + tail)
                stacky.append(cps(pre + sep) + tail)
    # one corpus entry per input class, sharing the rules
    ga = dict(gram, id="rawa", entries=[c["id"] for c in cs if not c["stacky"]], inputs=plain, ctxs=[[[], []]])
    gb = dict(gram, id="rawb", entries=[c["id"] for c in cs if c["stacky"]], inputs=[list(x) for x in {tuple(s) for s in stacky}], ctxs=[[[], []]])
    d = peg.tmpdir("c19")
    path = os.path.join(d, "corpus.json")
    json.dump({"grammars": [ga, gb]}, open(path, "w"))
    recs, st = peg.run_tlc(path, "c19", emit="dv", ast="src")
    if not st["ok"]:
        raise ToolError("TLC failed on the raw family:\n" + st.get("tail", "")[-3000:])
    ctx.add_stats(st)
    # harness crate
    famd = os.path.join(HARNESS, "fam", "raw_0")
    os.makedirs(os.path.join(famd, "src"), exist_ok=True)
    famgen.write_if_changed(os.path.join(famd, "Cargo.toml"), '[package]\nname = "fam_raw_0"\nversion = "0.0.0"\nedition = "2021"\n\n[dependencies]\nhcommon = { path = "../../hcommon" }\npest_typed = { path = "/repo/main" }\nserde_json = "1"\n')
    famgen.write_if_changed(os.path.join(famd, "src", "main.rs"), src)
    famgen.sync_workspace()
    p, bins = build_bins(["fam_raw_0"])
    if p.returncode != 0:
        raise ToolError("raw harness build failed:\n" + (p.stdout or "")[-4000:])
    byid = {"rawa": ga, "rawb": gb}
    cell = {c["id"]: c for c in cs}
    jobs = []
    for r in recs:
        if r["pc"] != "done":
            continue
        jobs.append({"idx": len(jobs), "g": r["g"], "rule": r["rule"], "inp": byid[r["g"]]["inputs"][r["ii"] - 1], "pre": [], "post": [], "modes": "", "_rec": r})
    res = peg.run_runner(bins["fam_raw_0"], [{k: v for k, v in j.items() if k != "_rec"} for j in jobs])
    known = [k for k in props.load_known() if k["property"] == "C19" and k["status"] == "known"]
    for j in jobs:
        rec, o, c = j["_rec"], res.get(j["idx"], {"missing": True}), cell[j["rule"]]
        ctx.cov["evaluations"] += 1
        if rec["ok"] and rec["end"] > 0:
            ctx.cov["distinct_nontrivial"] += 1
        d = []
        if "parse" not in o or "panic" in o.get("parse", {}) or "panic" in o.get("check", {}):
            d.append(("raw combinator", "a result", o))
        else:
            pa, ch = o["parse"], o["check"]
            # element count of the cell: the model's top-level rep record (last "rep"/"opt" at depth 1 for stack cells, first otherwise)
            exp_n = None
            if rec["ok"] and c["kind"] in ("minmax", "min", "array", "atomicrepeat"):
                reps = [e for e in rec["dv"] if e["k"] == "rep" and e["d"] == 1]
                exp_n = (reps[-1] if c["stacky"] else reps[0])["n"] if reps else None
            if pa["ok"] != rec["ok"]:
                d.append(("parse.ok", rec["ok"], pa["ok"]))
            elif rec["ok"]:
                if pa["end"] != rec["end"]:
                    d.append(("parse.end", rec["end"], pa["end"]))
                elif pa["stk"] != rec["stk"]:
                    d.append(("parse.stack", rec["stk"], pa["stk"]))
                elif exp_n is not None and pa["n"] != exp_n:
                    d.append(("element count", exp_n, pa["n"]))
                elif exp_n is not None and c["kind"] == "minmax" and not (c["mn"] <= pa["n"] <= c["mx"]):
                    d.append(("element count within MIN..MAX", [c["mn"], c["mx"]], pa["n"]))
            if not d and (ch["ok"] != pa["ok"] or (pa["ok"] and (ch["end"] != pa["end"] or ch["stk"] != pa["stk"]))):
                d.append(("check vs parse", pa, ch))
            # the never-failing interface (NeverFailedTypedNode::parse_with / check_with) of the MIN = 0 cells denotes the same match
            if not d and c.get("nf"):
                ctx.cov["evaluations"] += 1
                for nm in ("nf_parse", "nf_check"):
                    x = o.get(nm)
                    if not isinstance(x, dict) or "panic" in x:
                        d.append((nm, "a result", x))
                    elif not rec["ok"]:
                        d.append((nm + ": the model says a MIN = 0 repetition failed", None, x))
                    elif x["end"] != rec["end"] or x["stk"] != rec["stk"] or (nm == "nf_parse" and (x["n"] != pa["n"] or x["dbgh"] != pa["dbgh"])):
                        d.append((nm + " vs model / try_parse_partial_with", {"end": rec["end"], "stk": rec["stk"], "n": pa["n"]}, x))
                    if d:
                        break
        if d:
            f, e, ob = d[0]
            ctx.violation("%s: cell %s on %r: expected %s observed %s" % (f, {k: c[k] for k in ("kind", "ek", "skip", "mn", "mx")}, uncps(j["inp"]), json.dumps(e)[:120], json.dumps(ob)[:160]),
                          {"kind": "raw", "cell": c, "input": uncps(j["inp"]), "input_cps": j["inp"], "field": f, "expected": e, "observed": ob, "model": {k: rec[k] for k in ("ok", "end", "stk")}})
        if len(ctx.cov["samples"]) < 3 and rec["ok"] and rec["end"] > 2:
            ctx.cov["samples"].append({"cell": c, "input": uncps(j["inp"]), "model": {"ok": rec["ok"], "end": rec["end"], "stk": rec["stk"]}})
    ctx.cov["traces_validated_against_impl"] += len(jobs)
    ctx.notes["cells"] = len(cs)
    return ctx.finish(rule="cells = RepeatMinMax / RepeatMin over MIN, MAX in 0..4 (all pairs, also MIN > MAX) x SKIP in {0,1} x element kinds {string, choice, nested repetition, POP, DROP, PUSH}, plus [T;N], (T1,T2), Option<T>, SkipChar<N>, AtomicRepeat<T>; each instantiated directly from the runtime crate next to the model expression it denotes (rep(e,MIN,MAX) in a normal / atomic rule with WHITESPACE = \" \"); stack cells are preceded by PUSH(\"a\"){,3} ~ \";\". TLC runs the machine (M11: never more than MAX iterations; M1) on all inputs up to length %d over {a, b, c, space}; verdict, offset, final stack, element count (from the model's derivation record) and parse = check are compared" % L)


def _mentions(e, out, neg=False):
    t = e["t"]
    if t == "call":
        if not neg:
            out.add(e["n"])
    elif t in ("seq", "alt"):
        for x in e["xs"]:
            _mentions(x, out, neg)
    elif t in ("opt", "rep", "pos", "push", "restore"):
        _mentions(e["e"], out, neg)
    elif t == "neg":
        _mentions(e["e"], out, True)


def _norm_shape(s):
    if "x" in s:
        return "x"
    if "o" in s:
        return ["Option", _norm_shape(s["o"])]
    if "v" in s:
        return ["Vec", _norm_shape(s["v"])]
    return ["Tuple"] + [_norm_shape(e) for e in s["t"]]


def _parse_sig(t):
    """token-stream rendering of a return type -> shape term (any path ending in Option / Vec counts as such; references and
    other paths are leaves)"""
    if t is None:
        return None
    t = t.replace(" ", "")

    def skip_generics(j):
        depth = 0
        while j < len(t):
            ch = t[j]
            if ch == "<":
                depth += 1
            elif ch == ">":
                if depth == 0:
                    break
                depth -= 1
                if depth == 0:
                    return j + 1
            elif ch in ",)" and depth == 0:
                break
            j += 1
        return j

    def parse(i):
        if t[i] == "(":
            items = []
            j = i + 1
            while t[j] != ")":
                it, j = parse(j)
                items.append(it)
                if t[j] == ",":
                    j += 1
            return ["Tuple"] + items, j + 1
        if t[i] == "&":
            j = i + 1
            if t[j] == "'":                       # lifetime
                j += 1
                while t[j].isalnum() or t[j] == "_":
                    j += 1
            return "x", skip_generics(j)
        # a path: segments separated by ::, up to < or a delimiter
        j = i
        while j < len(t) and t[j] not in "<,)>(":
            j += 1
        path = t[i:j]
        if path.endswith("::"):
            path = path[:-2]
        last = path.split("::")[-1]
        if j < len(t) and t[j] == "<" and last in ("Option", "Vec"):
            inner, k = parse(j + 1)
            assert t[k] == ">", t[k:]
            return [last, inner], k + 1
        return "x", skip_generics(j)
    try:
        sh, j = parse(0)
        return sh
    except Exception:
        return ["unparsed", t]


def check_C16(tier, seed):
    import props, families
    ctx = Ctx("C16", tier, seed)
    variants = [("o", {"emit_rule_reference": True}, "opt"), ("s", {"emit_rule_reference": True, "pest_optimizer": False}, "src"),
                ("b", {"emit_rule_reference": True, "box_only_if_needed": True}, "opt")]      # unboxed content takes a different getter path
    famgen.sync_workspace()
    p, genbin = build_bin("genrun")
    if p.returncode != 0:
        raise ToolError("genrun build failed:\n" + (p.stdout or "")[-3000:])
    for vtag, opts, ast in variants:
        grams = families.fam_get(tier)
        for g in grams:
            g["id"] = g["id"] + vtag
            g["opts"] = opts
            # the rule is applied to a Span inside a longer string: text behind the end of the span is not part of the input
            g["ctxs"] = [[[], []], [[], cps("a")], [cps("b"), cps("ab")]] if vtag == "o" else [[[], []], [cps("a"), cps("-a")]]
            g["maxlen"] = min(g.get("maxlen", 3), 3)
        path, corpus = peg.make_corpus(grams, "c16" + vtag)
        gobs = run_text(genbin, [{"idx": i, "text": g["text"], "opts": opts, "want": "getters"} for i, g in enumerate(grams)], procs=4)
        for i, (g, c) in enumerate(zip(grams, corpus)):
            kinds = c["kinds"]
            rules = {r["name"]: r for r in (c["rules_src"] if ast == "src" else c["rules_opt"])}
            gen = gobs[i].get("getters", {})
            g["entries"] = [n for n in c["rule_names"] if n.startswith("r")]
            g["custom"] = {}
            g["getters"] = {}
            extra = ""
            for rn in g["entries"]:
                if kinds[rn] == "atomic":
                    continue
                ment = set()
                _mentions(rules[rn]["expr"], ment)
                exp = sorted(n for n in ment if n in kinds or n == "EOI")
                have = sorted(n for n, _ in gen.get(rn, []) if n in kinds or n == "EOI")
                ctx.cov["evaluations"] += 1
                if exp != have:
                    ctx.violation("getters of rule %s: expected accessors for %s, generated %s (%s)" % (rn, exp, have, rules[rn]["expr"]),
                                  {"kind": "generator", "grammar": g["text"], "opts": opts, "rule": rn, "expected": exp, "observed": have})
                names = [n for n in have if n in exp]
                g["getters"][rn] = names
                body = ""
                for n in names:
                    spanned = n == "EOI" or kinds.get(n) != "silent"
                    if spanned:
                        body += '            { let g = node.r#%s(); let mut v = vec![]; hcommon::Flat::<t::Rule>::flat(&g, &mut v); m.insert("%s".into(), serde_json::json!({"spans": hcommon::spans_json(&v), "shape": hcommon::Flat::<t::Rule>::shape(&g)})); }\n' % (n, n)
                    else:
                        body += '            { let g = node.r#%s(); m.insert("%s".into(), serde_json::json!({"cnt": hcommon::Cnt::cnt(&g), "shape": hcommon::Cnt::cshape(&g)})); }\n' % (n, n)
                extra += """
pub fn custom_%s(job: &hcommon::Job) -> serde_json::Value {
    use pest_typed::ParsableTypedNode;
    match t::rules::r#%s::try_parse_partial(pest_typed::Span::new(job.full.as_str(), job.lo, job.hi).unwrap()) {
        Ok((_, node)) => {
            let mut m = serde_json::Map::new();
            m.insert("__lo".into(), serde_json::json!(job.lo));
%s            let _ = &node;
            serde_json::Value::Object(m)
        }
        Err(_) => serde_json::json!({"fail": true}),
    }
}
""" % (rn, rn, body)
                g["custom"][rn] = "custom_%s" % rn
            g["extra"] = extra
        # GetterShape.tla: expected Option / Vec / tuple wrapping of every getter, against the emitted signature
        for c in corpus:
            c["names"] = [n for n in c["rule_names"]] + ["EOI"]
        json.dump({"grammars": corpus}, open(path, "w"))
        srecs, sst = peg.run_tlc(path, "c16" + vtag, cfg="GetterShape.cfg", module="GetterShape.tla", ast=ast)
        if not sst["ok"]:
            raise ToolError("TLC failed on GetterShape:\n" + sst.get("tail", "")[-3000:])
        ctx.add_stats(sst)
        sigs = {g["id"]: gobs[i].get("getters", {}) for i, g in enumerate(grams)}
        kind_of = {c["id"]: c["kinds"] for c in corpus}
        for sr in srecs:
            if not sr["rule"].startswith("r") or kind_of[sr["g"]][sr["rule"]] == "atomic":
                continue
            sig = dict((n, t) for n, t in sigs[sr["g"]].get(sr["rule"], []))
            exp = sr["shape"]
            if "none" in exp:
                continue
            got = _parse_sig(sig.get(sr["x"]))
            ctx.cov["evaluations"] += 1
            ctx.notes["getter_signatures_compared"] = ctx.notes.get("getter_signatures_compared", 0) + 1
            if got != _norm_shape(exp):
                gtext = next(g["text"] for g in grams if g["id"] == sr["g"])
                ctx.violation("return type of %s.%s() (%s): expected shape %s, emitted %s" % (sr["rule"], sr["x"], "optimizer off" if ast == "src" else "default", _norm_shape(exp), sig.get(sr["x"])),
                              {"kind": "generator", "grammar": gtext, "opts": opts, "rule": sr["rule"], "getter": sr["x"], "expected": _norm_shape(exp), "observed": sig.get(sr["x"])})
        rows = props.run_generic(ctx, "c16" + vtag, grams, "sX", lambda rec, job, obs, gram: [], ast=ast, emit="dv", with_pest=False)
        for rec, job, obs, gram in rows:
            if "panic" in obs and "t" not in obs:
                ctx.violation("getter code panicked on %s rule %s input %r: %s" % (gram["id"], job["rule"], uncps(job["inp"]), obs["panic"][:120]),
                              props.replay_of(rec, job, obs, gram, "panic", "no panic", obs["panic"]))
                continue
            if not rec["ok"] or "x" not in obs:
                continue
            x = obs["x"]
            if "fail" in x or "panic" in x:
                continue      # verdict mismatches are C01's business
            kinds = next(c for c in corpus if c["id"] == gram["id"])["kinds"]
            for n in gram["getters"].get(job["rule"], []):
                direct = [c for c in rec["calls"] if c[0] == n and c[3] == 1]
                o = x.get(n)
                if o is None:
                    continue
                if "spans" in o:
                    exp = [[c[1], c[2]] for c in direct]
                    lo0 = x.get("__lo", 0)
                    o = dict(o, spans=[[a - lo0, b - lo0] for a, b in o["spans"]])
                    if o["spans"] != exp:
                        ctx.violation("getter %s.%s() on %r (%s): expected nodes at %s, got %s  shape %s" % (job["rule"], n, uncps(job["inp"]), "optimizer off" if ast == "src" else "default", exp, o["spans"], o["shape"]),
                                      props.replay_of(rec, job, obs, gram, "getter %s" % n, exp, o))
                else:
                    if o["cnt"] != len(direct):
                        ctx.violation("getter %s.%s() on %r: expected %d nodes, got %d  shape %s" % (job["rule"], n, uncps(job["inp"]), len(direct), o["cnt"], o["shape"]),
                                      props.replay_of(rec, job, obs, gram, "getter %s" % n, len(direct), o))
                ctx.notes["getter_calls_compared"] = ctx.notes.get("getter_calls_compared", 0) + 1
                if direct:
                    ctx.notes["getter_calls_nonempty"] = ctx.notes.get("getter_calls_nonempty", 0) + 1
                if len(ctx.cov["samples"]) < 4 and len(direct) >= 2:
                    ctx.cov["samples"].append({"rule": job["rule"], "body": [l for l in gram["text"].splitlines() if l.startswith(job["rule"] + " ")][0], "input": uncps(job["inp"]), "getter": n, "expected_spans": [[c[1], c[2]] for c in direct], "observed": o})
    return ctx.finish(rule="family get: ~50 bodies enumerating mention positions (x, x?, x*, x ~ x, (x | y ~ x), (x ~ y)*, &x ~ x, !x ~ y, PUSH(x), nestings to depth 4, through silent and atomic rules) under normal / silent / compound / non-atomic rules, with and without WHITESPACE, compiled with emit_rule_reference and again with pest_optimizer = false; the machine's call queue (calls made directly by the rule body, positive predicates and PUSH included, negative predicates and implicit skips excluded) gives Direct(r, x) for every accepted input; every generated getter is called and flattened (Option / Vec / tuples) to the spans of the nodes it returns (silent rules: node count) and compared in order; the set of generated accessors is compared with the rules mentioned outside negative predicates")


def check_C17(tier, seed):
    import props, arityfam
    ctx = Ctx("C17", tier, seed)
    grams = arityfam.fam_arity(tier)
    rows = props.run_generic(ctx, "c17", grams, "snX", lambda rec, job, obs, gram: [], emit="dv", with_pest=False)
    # RepeatMinMax / RepeatMin<_, 1> exist only on the raw-AST path: same accessors, model on the source AST
    rows += props.run_generic(ctx, "c17s", arityfam.fam_arity_raw(tier), "snX", lambda rec, job, obs, gram: [], emit="dv", with_pest=False, ast="src")
    for rec, job, obs, gram in rows:
        if "panic" in obs and "t" not in obs:
            ctx.violation("accessor code panicked on %s rule %s input %r|%r|%r: %s" % (gram["id"], job["rule"], uncps(job["pre"]), uncps(job["inp"]), uncps(job["post"]), obs["panic"][:120]),
                          props.replay_of(rec, job, obs, gram, "panic", "no panic", obs["panic"]))
            continue
        if not rec["ok"] or "x" not in obs:
            continue
        x = obs["x"]
        text = uncps(job["inp"]).encode()
        sub = lambda s, e: text[s:e].decode()
        kind, arg = gram["expect"].get(job["rule"], (None, None))
        if kind is None:
            continue
        d = []
        if "fail" in x or "panic" in x:
            d.append(("accessors", "a result", x))
        elif kind == "choice":
            alt = next(e for e in rec["dv"] if e["k"] == "alt" and e["d"] == 1)
            i, n = alt["i"], alt["n"]
            exp = {"somes": [k == i for k in range(n)], "if_then": i, "reference": i, "consume": i, "match_choices": i}
            for f in exp:
                if x.get(f) != exp[f]:
                    d.append((f, exp[f], x.get(f)))
        elif kind == "seq":
            elems = [e for e in rec["dv"] if e["k"] == "elem" and e["d"] == 1]
            chars = [sub(e["m"], e["e"]) for e in elems]
            # skipped text before each element: the WHITESPACE tokens between s and m (one per blank)
            ga = [[[[p, p + 1] for p in range(e["s"], e["m"])], sub(e["m"], e["e"])] for e in elems]
            exp = {"get_matched": chars, "as_ref": chars, "into_matched": chars, "get_all": ga, "into_all": ga}
            for f in exp:
                if x.get(f) != exp[f]:
                    d.append((f, exp[f], x.get(f)))
        elif kind == "rep":
            its = [e for e in rec["dv"] if e["k"] == "iter" and e["d"] == 1]
            repn = [e for e in rec["dv"] if e["k"] == "rep" and e["d"] == 1][0]["n"]
            its = its[:repn]
            chars = [sub(e["m"], e["e"]) for e in its]
            allx = [[[[p, p + 1] for p in range(e["s"], e["m"])], sub(e["m"], e["e"])] for e in its]
            exp = {"iter_matched": chars, "into_iter_matched": chars, "into_iter_all": chars, "iter_all": allx, "len": len(chars)}
            for f in exp:
                if x.get(f) != exp[f]:
                    d.append((f, exp[f], x.get(f)))
        elif kind == "leaf":
            leaves = [e for e in rec["dv"] if e["k"] == "leaf" and e["d"] == 1]
            lf = leaves[-1]
            got = x.get("leaf")
            want = sub(lf["s"], lf["e"])
            if job["rule"] == "lf3":
                want = {"\r\n": "CRLF", "\n": "LF", "\r": "CR"}[want]
            if got != want:
                d.append(("leaf content of %s" % lf["r"], want, got))
        ctx.notes["accessor_records_compared"] = ctx.notes.get("accessor_records_compared", 0) + 1
        if d:
            f, e, o = d[0]
            ctx.violation("%s: %s on %r: expected %s observed %s" % (f, job["rule"], uncps(job["inp"]), json.dumps(e, ensure_ascii=False)[:140], json.dumps(o, ensure_ascii=False)[:140]),
                          props.replay_of(rec, job, obs, gram, f, e, o))
        elif len(ctx.cov["samples"]) < 5 and kind in ("choice", "seq") and rec["end"] >= 2:
            ctx.cov["samples"].append({"rule": job["rule"], "input": uncps(job["inp"]), "accessors": x})
    return ctx.finish(rule="family arity: choices of arity 2..16 with overlapping alternatives (\"ab\" | \"a\" | \"b\" | \"ba\" | ...; 13..16 use the on-demand choices! expansion), sequences of arity 2..16 of character ranges with WHITESPACE between, repetitions (normal, compound, inside a sequence) and one rule per leaf kind (range across the ASCII boundary, ANY, ^insensitive, NEWLINE, Unicode properties, ASCII_DIGIT, PEEK, POP, PEEK_ALL, POP_ALL). The machine's derivation queue gives the chosen alternative, the (skipped, matched) span of every element / iteration and the text of every leaf; generated Rust code calls _k(), if_then/else_if/else_then, reference(), consume(), match_choices!, get_matched / as_ref / into_matched / get_all, iter_matched / into_iter_matched / iter_all / into_iter_all and the leaf fields")


def _hist_code(rules):
    variants = "\n".join("    r_%s(t::rules::r#%s<'i>)," % (r, r) for r in rules)
    calls = "\n".join("""            "%s" => match go!(t::rules::r#%s) {
                Ok((rest, n)) => {
                    let h = hcommon_hash(&n);
                    let c = n.clone();
                    info.push(serde_json::json!({"ok": true, "end": rest, "dbg": format!("{:?}", n), "hash": h, "clone_eq": c == n, "clone_hash_eq": hcommon_hash(&c) == h}));
                    res.push(Any::r_%s(n));
                }
                Err(_) => { info.push(serde_json::json!({"ok": false})); res.push(Any::Fail); }
            },""" % (r, r, r) for r in rules)
    eqs = "\n".join("            (Any::r_%s(a), Any::r_%s(b)) => if a == b { 1 } else { 0 }," % (r, r) for r in rules)
    return """
#[allow(non_camel_case_types)]
enum Any<'i> {
%s
    Fail,
}
fn hcommon_hash<T: std::hash::Hash>(t: &T) -> String {
    use std::hash::Hasher;
    let mut h = std::collections::hash_map::DefaultHasher::new();
    t.hash(&mut h);
    format!("{:016x}", h.finish())
}
pub fn history(job: &hcommon::Job) -> serde_json::Value {
    use pest_typed::{Input, ParsableTypedNode};
    let full: &str = job.full.as_str();     // ONE input object for the whole history
    let mut res: Vec<Any> = vec![];
    let mut info: Vec<serde_json::Value> = vec![];
    for (k, call) in job.raw["hist"].as_array().unwrap().iter().enumerate() {
        let rule = call[0].as_str().unwrap();
        let (lo, hi) = (call[1].as_u64().unwrap() as usize, call[2].as_u64().unwrap() as usize);
        // the same sub-range is built in different ways, depending on the place in the history: Span::new, Span::get of the whole
        // input, Span::get of a parent span that ends before the end of the input
        let span = match k %% 3 {
            0 => pest_typed::Span::new(full, lo, hi).unwrap(),
            1 => pest_typed::Span::new_full(full).get(lo..hi).unwrap(),
            _ => {
                let pe = if hi < full.len() && full.is_char_boundary(hi + 1) { hi + 1 } else { hi };
                pest_typed::Span::new(full, 0, pe).unwrap().get(lo..hi).unwrap()
            }
        };
        // the same arguments reach the parser through different input forms, depending on the place in the history
        let form = if hi == full.len() && k %% 2 == 1 { if lo == 0 { 1 } else { 2 } } else { 0 };
        macro_rules! go {
            ($t:ty) => {
                match form {
                    1 => <$t>::try_parse_partial(full).map(|(r, n)| (r.byte_offset(), n)),
                    2 => <$t>::try_parse_partial(pest_typed::Position::new(full, lo).unwrap()).map(|(r, n)| (r.byte_offset(), n)),
                    _ => <$t>::try_parse_partial(span).map(|(r, n)| (r.byte_offset(), n)),
                }
            };
        }
        match rule {
%s
            _ => { info.push(serde_json::json!({"unknown": true})); res.push(Any::Fail); }
        }
    }
    let mut eq = vec![];
    for a in res.iter() {
        let mut row = vec![];
        for b in res.iter() {
            row.push(match (a, b) {
%s
                _ => -1,
            });
        }
        eq.push(row);
    }
    serde_json::json!({"info": info, "eq": eq})
}
""" % (variants, calls, eqs)


def check_C18(tier, seed):
    import props
    ctx = Ctx("C18", tier, seed)
    text = "\n".join(['WHITESPACE = { " " }', "w = { 'a'..'c' ~ \"!\"? }", "s = _{ 'a'..'c' ~ \"!\" }", 'o = { (&"ab")? ~ "a" }', "l = { w ~ w* }",
                      'c = ${ ("ab" | "a") ~ ^"B"? }', "p = { PUSH('a'..'b') ~ PEEK }", "n = !{ s ~ s? }",
                      # same rule, same span, different content: what lies behind the end of the sub-range decides an optional part
                      "e = { 'a'..'c' ~ EOI? }",
                      # ... or how many iterations a peeked / a silent rule's repetition has
                      "k = { &(\"a\"*) ~ 'a'..'c' }", "m = _{ 'a'..'c'* }",
                      # nodes without a span of their own compare and hash by what they matched, wherever it was matched
                      "ci = _{ ^\"a\" ~ ^\"B\"? ~ \"!\"? }"])
    full = "a! b!ab a!aBaa b! a!"
    rules = ["w", "s", "o", "l", "c", "p", "n", "e", "k", "m", "ci"]
    g = dict(id="hi0", text=text, alphabet=[], maxlen=0, inputs=[cps(full)], entries=rules)
    path, corpus = peg.make_corpus([g], "c18")
    # pool of (rule, sub-range): same text at different places, same start with different ends, overlapping ranges
    L = len(full)
    pool = []
    rnd = random.Random(seed)
    ranges = [(0, 2), (9, 11), (18, 20), (0, L), (0, 5), (3, 5), (3, L), (5, 7), (5, 6), (11, 13), (11, 14), (13, 15), (13, 14), (15, 19), (0, 1), (9, 10), (5, 9), (2, 5), (1, 5),
              (12, 13), (12, 14), (12, 15), (12, 12)]
    for r in rules:
        for (lo, hi) in ranges:
            pool.append({"g": 1, "rule": r, "lo": lo, "hi": hi})
    npool = 14 if tier == "quick" else 12
    H = 3 if tier == "quick" else 4
    rounds = 4 if tier == "quick" else 6
    g["rules"] = rules
    g["extra"] = _hist_code(rules)
    g["arms"] = ['        ("hi0", "__hist") => hi0::history(job),']
    shards = famgen.gen_family("c18", [g], with_pest=False)
    bins, errs = famgen.build_family(shards)
    if bins is None:
        raise ToolError("C18 harness build failed: %s" % errs)
    binp = bins[shards[0][0]]
    tot_hist = 0
    for rd in range(rounds):
        # two rules per pool, several sub-ranges each, so that results of the same type meet in most histories
        pairs = [("o", "e"), ("k", "m"), ("ci", "s"), ("w", "s"), ("o", "l"), ("c", "p"), ("n", "s"), ("s", "o"), ("l", "w"), ("p", "n"), ("c", "o"), ("e", "w")]
        ra, rb = pairs[rd % len(pairs)]
        must0 = [(0, 2), (0, 5), (0, L), (3, 5), (3, L), (9, 11)] if tier == "quick" else [(0, 2), (0, 5), (0, L), (3, 5), (9, 11)]
        # ranges on which these rules give the same span with different content (and the same content from different ranges)
        special = {"o": [(5, 6), (5, 7), (5, 9), (0, 2), (3, 5)], "e": [(0, 1), (0, 2), (0, 5), (9, 10), (9, 11)],
                   "k": [(12, 13), (12, 14), (12, 15), (0, 2), (5, 7)], "m": [(12, 13), (12, 14), (12, 15), (12, 12), (5, 7), (5, 6)],
                   "ci": [(0, 1), (8, 9), (0, 2), (8, 10), (10, 12), (5, 7)]}
        sub = []
        for r in (ra, rb):
            must = special.get(r, must0)
            rs = must + rnd.sample([x for x in ranges if x not in must], npool // 2 - len(must))
            sub += [{"g": 1, "rule": r, "lo": lo, "hi": hi} for lo, hi in rs]
        # make sure the same (rule) occurs several times so that == between results is exercised
        cj = {"grammars": [dict(corpus[0], full=cps(full))], "pool": sub}
        d = peg.tmpdir("c18")
        cp = os.path.join(d, "hist%d.json" % rd)
        json.dump(cj, open(cp, "w"))
        recs, st = peg.run_tlc(cp, "c18", cfg="ApiHistory.cfg", module="ApiHistory.tla", emit="dv", extra_env={"VERIF_MAXH": str(H)})
        if not st["ok"]:
            raise ToolError("TLC failed on ApiHistory:\n" + st.get("tail", "")[-3000:])
        ctx.add_stats(st)
        jobs = []
        for i, r in enumerate(recs):
            jobs.append({"idx": i, "g": "hi0", "rule": "__hist", "inp": cps(full), "pre": [], "post": [], "modes": "",
                         "hist": [[c["rule"], c["lo"], c["hi"]] for c in r["calls"]]})
        res = peg.run_runner(binp, jobs)
        tot_hist += len(recs)
        firstdbg = {}
        for i, r in enumerate(recs):
            o = res.get(i, {})
            ctx.cov["evaluations"] += 1
            if any(c["ok"] for c in r["calls"]):
                ctx.cov["distinct_nontrivial"] += 1
            d = []
            if "info" not in o:
                d.append(("history run", "a result", o))
            else:
                for k, (c, inf) in enumerate(zip(r["calls"], o["info"])):
                    if inf.get("ok") != c["ok"] or (c["ok"] and inf["end"] != c["end"]):
                        d.append(("call %d result" % k, {"ok": c["ok"], "end": c["end"]}, inf))
                    elif c["ok"]:
                        if not inf["clone_eq"] or not inf["clone_hash_eq"]:
                            d.append(("clone of call %d" % k, "equal and equally hashed", inf))
                        key = (c["rule"], c["lo"], c["hi"])
                        if key in firstdbg and firstdbg[key] != inf["dbg"]:
                            d.append(("result of %s depends on the history" % (key,), firstdbg[key], inf["dbg"]))
                        firstdbg.setdefault(key, inf["dbg"])
                if not d:
                    n = len(r["calls"])
                    for a in range(n):
                        for b in range(n):
                            e, got = r["eq"][a][b], o["eq"][a][b]
                            if e != got:
                                d.append(("== of results %d and %d" % (a, b), e, got))
                            elif e >= 0:
                                ia, ib = o["info"][a], o["info"][b]
                                if (e == 1) != (ia["dbg"] == ib["dbg"]):
                                    d.append(("== vs Debug of results %d and %d" % (a, b), e, [ia["dbg"], ib["dbg"]]))
                                if e == 1 and ia["hash"] != ib["hash"]:
                                    d.append(("equal results hash differently (%d, %d)" % (a, b), ia["hash"], ib["hash"]))
            if d:
                f, e, ob = d[0]
                ctx.violation("%s in history %s: expected %s observed %s" % (f, [[c["rule"], c["lo"], c["hi"]] for c in r["calls"]], json.dumps(e)[:150], json.dumps(ob)[:200]),
                              {"kind": "history", "grammar": text, "input": full, "history": r["calls"], "field": f, "expected": e, "observed": ob, "model_eq": r["eq"]})
            elif len(ctx.cov["samples"]) < 3 and sum(1 for row in r["eq"] for v in row if v == 1) > len(r["calls"]):
                ctx.cov["samples"].append({"history": [[c["rule"], c["lo"], c["hi"]] for c in r["calls"]], "input": full, "equal_matrix": r["eq"]})
    ctx.cov["traces_validated_against_impl"] += tot_hist
    ctx.notes["histories"] = tot_hist
    return ctx.finish(rule="ApiHistory.tla: histories of %d calls drawn with repetition and in every order from a pool of %d (rule, sub-range) pairs of one input string (%d pools per run, seeded), rules of kinds normal / silent / compound / non-atomic with WHITESPACE, predicates, choices, PUSH/PEEK; every call restarts the machine from its initial state; invariants: a call's result does not depend on its position in the history, Equal is symmetric and reflexive. For every history the real entry points are called in that order on ONE input object: verdict and offset per call, Debug of a call identical wherever it occurs, clone == original with equal hash, and for every pair of results of the same rule: == exactly as Equal (Canon of the derivation: what the typed tree stores), == iff same Debug, equal => equal hash. non-trivial = histories with at least one accepted call" % (H, npool, rounds))


def fam_opt(tier):
    ws = 'WHITESPACE = _{ " " }'
    g = []
    g.append(dict(id="op0", text='a = { "a" ~ b* }\nb = { "b" ~ c? }\nc = { a+ }', alphabet=cps("ab"), maxlen=4))
    g.append(dict(id="op1", text=ws + '\ne = { t ~ ("+" ~ t)* }\nt = { f ~ ("*" ~ f)* }\nf = { "(" ~ e ~ ")" | n }\nn = @{ (\'0\'..\'1\')+ }',
                  alphabet=cps("1+*() "), maxlen=3, inputs=[cps(s) for s in ["1+1*0", "(1+0)*1", "( 1 + 1 )", "1 + (0*(1))", "((1))", "1+", "(1", "1 1", "1*(0+1)*1"]]))
    g.append(dict(id="op2", text=ws + '\nr = { "a"{2} ~ "b"{1,} ~ "c"{,2} ~ "d"{1,2} }\nl = { ("a" ~ "b")* ~ "a" }\np = !{ ("c")+ }\nq = ${ ("a" | "b"){2,3} ~ p? }\ns = _{ r | l ~ p }\nm = { ("a" | "b"){1,3} ~ "c" }\nk = { "a"{2,4} }\nj = !{ &("b"{1,2} ~ "c") ~ ANY* }',
                  alphabet=cps("abc "), maxlen=4, inputs=[cps(s) for s in ["aabbcd", "aab cdd", "a a b c d", "aabbbccdd", "abab", "ababa", "ab a", "c c", "c ", "abc c", "ab c"]]))
    g.append(dict(id="op3", text='v = { o | a | s | "t" }\no = { "{" ~ (m ~ ("," ~ m)*)? ~ "}" }\nm = { s ~ ":" ~ v }\na = { "[" ~ (v ~ ("," ~ v)*)? ~ "]" }\ns = @{ "\'" ~ (!"\'" ~ ANY)* ~ "\'" }',
                  alphabet=cps("{}[],:t'"), maxlen=3, inputs=[cps(x) for x in ["{'t':t}", "[t,[t],{}]", "{'':[t,t]}", "[[[t]]]", "{'a':{'b':t}}", "[t,", "{'t'}", "'t"]]))
    g.append(dict(id="op6", text='c = @{ "/*" ~ (!"*/" ~ ANY)* ~ "*/" }\nq = @{ (!("é" | ";") ~ ANY)* ~ ";" }\ns = { "[" ~ (c | q)* ~ "]" }\nt = @{ (!("*" | "/") ~ ANY)* ~ ("*" | "/") }\nu = { (c | t | "*" | "/")* }',
                  alphabet=[233, 20013, 59, 42, 47], maxlen=3,
                  inputs=[cps(x) for x in ["/*é*/", "/* 注 */", "/*中*/", "é;", "中é;", "[/*é*/中;]", "[中;/**/]", "/*é", "中中;", "/*中中*/", "[é;]", "é*中/é", "é/**/中*", "*/é"]]))
    if tier != "quick":
        g.append(dict(id="op4", text='x = { PUSH("a" | "b") ~ (y | "-")* ~ POP }\ny = { "(" ~ x ~ ")" | PEEK }', alphabet=cps("ab-()"), maxlen=4,
                      inputs=[cps(x) for x in ["a-a", "a(b-b)a", "aaa", "a(bb)-a", "b(a(b-b)a)b"]]))
        g.append(dict(id="op5", text=ws + '\nCOMMENT = _{ "#" ~ (!"#" ~ ANY)* ~ "#" }\ndoc = { SOI ~ (item ~ ";")* ~ EOI }\nitem = { key ~ "=" ~ val }\nkey = @{ ASCII_ALPHA+ }\nval = { key | "[" ~ val* ~ "]" }',
                      alphabet=cps("a=;[] #"), maxlen=3, inputs=[cps(x) for x in ["a=a;", "a = [a a];", "a=[[a]a];a=a;", "a #c# = a ;", "a=[;", "a=a"]]))
    # recursion through every operator and every rule kind, direct and mutual, in both declaration orders: whichever rule the
    # reachability analysis leaves unboxed, the types must stay finite ("recursive grammars still compile when boxing is reduced")
    g.append(dict(id="op7", text="\n".join([
        'd0 = { "(" ~ d0? ~ ")" }', 'd1 = ${ "(" ~ d1? ~ ")" }', 'd2 = @{ "(" ~ d2? ~ ")" }', 'd3 = _{ "(" ~ d3? ~ ")" }', 'd4 = !{ "(" ~ d4? ~ ")" }',
        'd5 = { "(" ~ (d5 | "x") ~ ")" }', 'd6 = ${ "a" ~ (&d6 ~ "a")? }', 'd7 = { "a" ~ (!d7 ~ "b")? }', 'd8 = { "(" ~ d8* ~ ")" }',
        'd9 = ${ "(" ~ PUSH(d9)? ~ ")" ~ DROP? }', 'd10 = { "(" ~ (d10 ~ ",")+ ~ ")" | "x" }', 'd11 = @{ "a" ~ (&d11 ~ "a")? }', 'd12 = { ("(" ~ d12 ~ ")"){1,2} | "x" }']),
        alphabet=cps("()xab,"), maxlen=3, inputs=[cps(x) for x in ["(())", "((()))", "(x)", "((x))", "aaa", "aaaa", "ab", "aab", "(()())", "((x,),)", "(x,x,)", "(x)(x)", "((x)(x))"]]))
    g.append(dict(id="op8", text="\n".join([
        'ma = { "a" ~ (&mb ~ "b")? }', 'mb = { "b" ~ ma? }', 'mc = ${ "[" ~ md? ~ "]" }', 'md = { "<" ~ mc? ~ ">" }', 'me = { "<" ~ mf? ~ ">" }', 'mf = ${ "[" ~ me? ~ "]" }',
        'mg = @{ "(" ~ mh? ~ ")" }', 'mh = _{ "a" ~ mg ~ "a" | "b" }', 'mi = !{ "a" ~ (mj | "b") }', 'mj = { "b" ~ (!mi ~ "b" | mi) }',
        't1 = { "a" ~ t2? }', 't2 = ${ "b" ~ (&t3 ~ "(")? }', 't3 = { "(" ~ t1? ~ ")" }', 'u1 = ${ "a" ~ (u2 | "b") }', 'u2 = ${ "(" ~ PUSH(u1) ~ ")" ~ POP }']),
        alphabet=cps("ab()[]<>"), maxlen=3, inputs=[cps(x) for x in ["ab", "abab", "bab", "[<[]>]", "<[<>]>", "[<>]", "(a(b)a)", "(b)", "a(b)a", "abab", "abbb", "babb", "ab(", "ab(a)", "ab(ab(a))",
                                                                         "a(ab)ab", "a(a(ab)ab)a(ab)ab"]]))
    # non-silent WHITESPACE / COMMENT tokens between the iterations of counted repetitions, and counted repetitions of a rule that can
    # match empty: on the raw-AST path these are RepeatMinMax nodes (pair tree, iteration count)
    g.append(dict(id="op9", text="\n".join(['WHITESPACE = { " " }', 'COMMENT = @{ "#" ~ (!"#" ~ ANY)* ~ "#" }', "item = { 'a'..'c' }", "num = { '0'..'1'* }", 'exact = { item{3} }',
                                             'most = { item{,3} }', 'betw = { item{2,3} ~ "!"? }', 'nums = { num{3} }', 'numm = { num{,2} ~ "!" }', 'least = { item{2,} }',
                                             'both = ${ (num ~ ","){2} ~ item{1,2} }']),
                  alphabet=cps("a1 #!"), maxlen=3 if tier == "quick" else 4,
                  inputs=[cps(x) for x in ["a #x# b #y#c", "a b c", "a#x#b", "a b", "a b c a", "abc", "ab !", "a #c# b!", "12", "1 0 1", "10 1", "", "!", "1 !", "1#c#0!", "a a a a", "1,,a", "1,0,ab", ",,a b",
                                           "1 ,0, a"]]))
    import re
    for x in g:      # the skip rules themselves as entry rules are C01's known finding, not an option effect
        x["entries"] = [n for n in re.findall(r"(?m)^(\w+)\s*=", x["text"]) if n not in ("WHITESPACE", "COMMENT")]
    return g


KIND_BRACE = {"normal": "", "atomic": "@", "compound": "$", "silent": "_", "nonatomic": "!"}


def _box_text(kinds, edges):
    """grammar of a BoxGraph record: rule i starts with a literal (never left-recursive) and mentions rule j as edges[i][j] says"""
    lines = []
    for i, k in enumerate(kinds):
        parts = ['"%d"' % (i + 1)]
        for j, e in enumerate(edges[i]):
            r = "r%d" % (j + 1)
            piece = {"none": None, "val": r, "opt": r + "?", "alt": '(%s | "z")' % r, "pos": "&" + r, "neg": "!" + r, "rep": r + "*", "plus": r + "+", "push": "PUSH(%s)" % r}[e]
            if piece:
                parts.append(piece)
        lines.append("r%d = %s{ %s }" % (i + 1, KIND_BRACE[k], " ~ ".join(parts)))
    return "\n".join(lines)


def boxgraph_pass(ctx, tier):
    """C20 'recursive grammars still compile when boxing is reduced', on every grammar shape in the bound: BoxGraph.tla enumerates
    (rule kinds x how rule i mentions rule j), the generator is run as a library with box_only_if_needed on both AST paths, and TLC
    evaluates Finite (no by-value cycle through unboxed rules) on the boxed flags it emitted."""
    d = peg.tmpdir("c20")
    runs = [("2", "4", "0")] if tier == "quick" else [("2", "4", "1"), ("3", "3", "0")]
    famgen.sync_workspace()
    p, genbin = build_bin("genrun")
    if p.returncode != 0:
        raise ToolError("genrun build failed:\n" + (p.stdout or "")[-3000:])
    total = 0
    for n, maxe, rich in runs:
        env = {"VERIF_N": n, "VERIF_MAXE": maxe, "VERIF_RICH": rich, "VERIF_MODE": "gen", "VERIF_OBS": ""}
        recs = tlc_text(ctx, "BoxGraph.tla", "BoxGraph.cfg", "c20", env)
        jobs = []
        for i, r in enumerate(recs):
            text = _box_text(r["kinds"], r["edges"])
            for a, opts in (("opt", {"box_only_if_needed": True}), ("src", {"box_only_if_needed": True, "pest_optimizer": False})):
                jobs.append({"idx": len(jobs), "text": text, "opts": opts, "want": "boxed", "_r": i, "_ast": a})
        obs = run_text(genbin, [{k: v for k, v in j.items() if not k.startswith("_")} for j in jobs], procs=12)
        obsp = os.path.join(d, "boxobs_%s.ndjson" % n)
        order = []
        with open(obsp, "w") as fo:
            for j in jobs:
                o = obs.get(j["idx"])
                r = recs[j["_r"]]
                ctx.cov["evaluations"] += 1
                if any(r["need"].values()):
                    ctx.cov["distinct_nontrivial"] += 1
                if o is None or o.get("panic") or not isinstance(o.get("boxed"), dict) or any(("r%d" % (k + 1)) not in o["boxed"] for k in range(len(r["kinds"]))):
                    ctx.violation("generator gave no boxed flags for a pest-valid grammar (options %s): %s" % (j["opts"], j["text"].replace("\n", " ; ")),
                                  {"kind": "generator", "grammar": j["text"], "opts": j["opts"], "observed": o})
                    continue
                boxed = [bool(o["boxed"]["r%d" % (k + 1)] is True) for k in range(len(r["kinds"]))]
                fo.write(json.dumps({"kinds": r["kinds"], "edges": r["edges"], "ast": j["_ast"], "boxed": boxed}) + "\n")
                order.append((j, boxed))
        env2 = dict(env, VERIF_MODE="val", VERIF_OBS=obsp)
        _, st = peg.run_tlc("", "c20", cfg="BoxGraph.cfg", module="BoxGraph.tla", extra_env=env2, workers=1)
        if not st["ok"]:
            raise ToolError("TLC did not complete cleanly on BoxGraph (val):\n" + st.get("tail", "")[-3000:])
        ctx.add_stats(st)
        bad = [int(x) for x in re.findall(r'<<"BAD", (\d+)>>', open(st["out"]).read())]
        for l in sorted(set(bad)):
            j, boxed = order[l - 1]
            ctx.violation("box_only_if_needed (%s AST) leaves a by-value cycle of unboxed rules: boxed = %s for %s" % (j["_ast"], boxed, j["text"].replace("\n", " ; ")),
                          {"kind": "generator", "grammar": j["text"], "opts": j["opts"], "boxed": boxed, "spec": "BoxGraph.tla: Finite"})
        ctx.cov["traces_validated_against_impl"] += len(order)
        total += len(order)
    ctx.notes["boxgraph_records_validated"] = total


def check_C20(tier, seed):
    import props
    ctx = Ctx("C20", tier, seed)
    on_sets = [{}, {"box_only_if_needed": True}, {"emit_rule_reference": True, "do_not_emit_span": True}, {"emit_tagged_node_reference": True, "no_warnings": True},
               {"box_only_if_needed": True, "emit_rule_reference": True, "emit_tagged_node_reference": True, "do_not_emit_span": True, "no_warnings": True}]
    off_sets = [{"pest_optimizer": False}, {"pest_optimizer": False, "box_only_if_needed": True, "emit_rule_reference": True}]
    if tier == "quick":
        on_sets = [on_sets[0], on_sets[1], on_sets[4]]
        off_sets = off_sets[:1] + off_sets[1:]
    base = fam_opt(tier)

    def variants(sets, tag):
        out = []
        for si, opts in enumerate(sets):
            for g in base:
                x = dict(g)
                x["id"] = "%s%s%d" % (g["id"], tag, si)
                x["opts"] = opts
                out.append(x)
        return out

    def cmp(rec, job, obs, gram):
        d = props.cmp_c01(rec, job, obs, gram)
        if not d:
            d = props.cmp_c02(rec, job, obs, gram)
        return d
    # option sets that keep pest's optimizer: must equal the model on the optimized AST, no finding applies
    props.run_generic(ctx, "c20on", variants(on_sets, "n"), "s", cmp, with_pest=False, use_known=False)
    # optimizer off: the property demands the same outcome; mismatches must be exactly the source-AST reading (known finding)
    offv = variants(off_sets, "f")
    # more grammars on the raw-AST path: operator compositions with counted repetitions / e+ under implicit skipping
    import families
    ops = [g for g in families.fam_ops(tier) if g["id"].startswith("ow") and any(t in g["text"] for t in ("{2}", "{1,}", "{,2}", "{1,2}", ")+"))]
    for g in (ops[::4] if tier == "quick" else ops):
        x = dict(g)
        x["id"] = g["id"] + "f9"
        x["opts"] = {"pest_optimizer": False}
        x["entries"] = ["r%d" % k for k in range(8) if ("\nr%d = " % k) in g["text"]]     # not the skip rules themselves (C01's known finding)
        offv.append(x)
    props.run_generic(ctx, "c20off", offv, "s", cmp, with_pest=False, use_known=True)
    # generation is deterministic: N separate generator processes give byte-identical token streams
    famgen.sync_workspace()
    p, genbin = build_bin("genrun")
    if p.returncode != 0:
        raise ToolError("genrun build failed:\n" + (p.stdout or "")[-3000:])
    N = 4 if tier == "quick" else 12
    jobs = []
    for opts in on_sets + off_sets:
        for g in base:
            jobs.append({"idx": len(jobs), "text": g["text"], "opts": opts, "gid": g["id"]})
    hashes = []
    for k in range(N):
        env = dict(os.environ, VERIF_RUN=str(k), **{"VERIF_PAD_%d" % j: "x" * j for j in range(k)})
        pr = subprocess.run([genbin], input="".join(json.dumps(j) + "\n" for j in jobs), stdout=subprocess.PIPE, stderr=subprocess.DEVNULL, text=True, env=env)
        hs = {}
        for line in pr.stdout.splitlines():
            v = json.loads(line)
            hs[v["idx"]] = v["obs"]
        hashes.append(hs)
        ctx.cov["evaluations"] += len(jobs)
    for j in jobs:
        vals = [h.get(j["idx"], {}).get("hash") for h in hashes]
        if any(h.get(j["idx"], {}).get("panic") for h in hashes):
            ctx.violation("generator panicked on a valid grammar %s with %s" % (j["gid"], j["opts"]), {"kind": "generator", "grammar": j["text"], "opts": j["opts"], "observed": [h.get(j["idx"]) for h in hashes]})
        elif len(set(vals)) != 1:
            ctx.violation("generation is not deterministic for %s with %s: %s" % (j["gid"], j["opts"], vals), {"kind": "generator", "grammar": j["text"], "opts": j["opts"], "observed": vals})
    ctx.notes["generator_processes"] = N
    ctx.notes["option_sets"] = [sorted(s) for s in on_sets + off_sets]
    boxgraph_pass(ctx, tier)
    return ctx.finish(rule="BoxGraph.tla: every grammar shape of 2 rules (4 kinds x 6 ways of mentioning, <= 4 mentions; thorough: 5 kinds x 8 ways, and 3 rules with <= 3 mentions) is generated with box_only_if_needed on both AST paths and TLC evaluates Finite (no by-value cycle through unboxed rules; by value = plain mention, ?, choice, &, PUSH, first copy of e+ on the optimized path) on the boxed flags the generator emitted. Family opt (mutually recursive grammars, arithmetic with WHITESPACE, counted repetitions + the lister shape, a JSON-like grammar, recursive stack grammar, comments) compiled under each option set (alone and together; pest_optimizer = false with and without reduced boxing); every behaviour of the machine is replayed on every variant: verdict, offset and pair tree must equal the model on the optimized AST (optimizer-off mismatches are accepted only when the machine on the SOURCE AST reproduces them exactly - known finding); the generator is run as a library in N separate processes (different environments) and the emitted token streams must be identical; compile success of the recursive grammars with reduced boxing is part of the harness build")
