"""Direction (B): record traces from the real code (API results + hook events) on inputs beyond the exhaustive bound
and let TLC validate them against the machine (spec/PegTrace.tla)."""
import os, json, random, re, subprocess, time
from vcommon import *
import peg, famgen, props


def eligible(g):
    """grammars on which the known WHITESPACE/COMMENT finding cannot show: skip rules are not `!`-declared and are never
    referenced by name (their use as entry rule is excluded separately)"""
    t = g["text"]
    if re.search(r"(WHITESPACE|COMMENT)\s*=\s*!", t):
        return False
    body = re.sub(r"(?m)^\s*(WHITESPACE|COMMENT)\s*=.*$", "", t)
    if re.search(r"\b(WHITESPACE|COMMENT)\b", body):
        return False
    # ... and their bodies call no user rule (non-silent rules called from inside them show up as tokens: same finding)
    names = set(re.findall(r"(?m)^\s*(\w+)\s*=", t))
    for m in re.finditer(r"(?m)^\s*(?:WHITESPACE|COMMENT)\s*=\s*[_@$!]?\{(.*)\}\s*$", t):
        if names & set(re.findall(r"\b[A-Za-z_]\w*\b", re.sub(r'"(?:[^"\\]|\\.)*"', "", m.group(1)))):
            return False
    return True


def long_inputs(rnd, alphabet, accepted, n, lo=6, hi=24):
    out = []
    acc = [a for a in accepted if a]
    for k in range(n):
        c = rnd.random()
        if acc and c < 0.6:
            parts = [rnd.choice(acc) for _ in range(rnd.choice([2, 3, 4, 6]))]
            s = []
            for p in parts:
                s += p
                if rnd.random() < 0.3 and alphabet:
                    s.append(rnd.choice(alphabet))
            if rnd.random() < 0.3 and s:
                s[rnd.randrange(len(s))] = rnd.choice(alphabet)
            out.append(s)
        else:
            out.append([rnd.choice(alphabet) for _ in range(rnd.randint(lo, hi))])
    return out


def validate(ctx, tag, grams, seed, per_rule, events=True, ast="opt", rows=None, max_reject=5):
    """grams: family grammars (already carrying rules/entries); rows: optional direction-A rows to harvest accepted inputs from."""
    grams = [g for g in grams if eligible(g)]
    if not grams:
        return 0
    rnd = random.Random("trace/%s/%s" % (tag, seed))
    path, corpus = peg.make_corpus(grams, tag + "_tr")
    for g, c in zip(grams, corpus):
        g["rules"] = c["rule_names"] if not g.get("entries") else g["entries"]
    shards = famgen.gen_family(tag + "tr", grams, with_pest=False)
    bins, errs = famgen.build_family(shards)
    if bins is None:
        raise ToolError("trace harness build failed: %s" % errs)
    accepted = {}
    if rows:
        for rec, job, obs, gram in rows:
            if rec.get("ok") and rec.get("end", 0) > 0:
                accepted.setdefault((job["g"].rstrip("0123456789"), job["rule"]), []).append(job["inp"][: max(1, len(job["inp"]))])
    jobs = []
    gidx = {g["id"]: i + 1 for i, g in enumerate(grams)}
    for g, c in zip(grams, corpus):
        alpha = g.get("alphabet") or sorted({ch for s in g.get("inputs", []) for ch in s}) or [97]
        for r in g["rules"]:
            if r in ("WHITESPACE", "COMMENT"):
                continue
            acc = [x for x in g.get("inputs", []) if x][:40]
            for k, inp in enumerate(g["long_inputs"] if "long_inputs" in g else long_inputs(rnd, alpha, acc, per_rule)):
                pre, post = [], []
                if k % 3 == 2 and alpha:        # every third call goes through a Span inside a longer string
                    pre = [rnd.choice(alpha) for _ in range(rnd.randint(0, 3))]
                    post = [rnd.choice(alpha) for _ in range(rnd.randint(1, 4))]
                jobs.append({"idx": len(jobs), "g": g["id"], "rule": r, "inp": inp, "pre": pre, "post": post, "modes": "snE" if events else "sn"})
    res = props.run_sharded(bins, shards, jobs)
    recs = []
    # a parse that does not return is a violation only if the specification says it returns: pest accepts some grammars that
    # repeat without progress (e.g. (PEEK_ALL)* on an empty stack); the machine reports those runs as "diverged"
    hung = [j for j in jobs if res.get(j["idx"], {}).get("timeout")]
    model_diverges = set()
    if hung:
        hg = []
        for gid in sorted({j["g"] for j in hung}):
            g0 = dict(next(g for g in grams if g["id"] == gid))
            g0["inputs"] = [j["inp"] for j in hung if j["g"] == gid]
            g0["ctxs"] = [list(x) for x in {(tuple(j["pre"]), tuple(j["post"])) for j in hung if j["g"] == gid}]
            g0["ctxs"] = [[list(a), list(b)] for a, b in g0["ctxs"]]
            g0["maxlen"] = 0
            g0["alphabet"] = []
            g0["entries"] = sorted({j["rule"] for j in hung if j["g"] == gid})
            g0.pop("long_inputs", None)
            hg.append(g0)
        hpath, hcorp = peg.make_corpus(hg, tag + "_hung")
        hrecs, hst = peg.run_tlc(hpath, tag + "_hung", ast=ast)
        if not hst["ok"]:
            raise ToolError("TLC failed on the inputs the real parser hung on:\n" + hst.get("tail", "")[-2000:])
        byg = {c["id"]: c for c in hcorp}
        for r in hrecs:
            if r["pc"] != "done":
                c = byg[r["g"]]["ctxs"][r["ci"] - 1]
                model_diverges.add((r["g"], r["rule"], tuple(c[0]), tuple(byg[r["g"]]["inputs"][r["ii"] - 1]), tuple(c[1])))
        ctx.notes["non_returning_parses_predicted_by_the_model"] = ctx.notes.get("non_returning_parses_predicted_by_the_model", 0) + len(model_diverges)
    for j in jobs:
        o = res.get(j["idx"], {})
        t = o.get("t", {}).get("span" if (j["pre"] or j["post"]) else "str")
        if o.get("timeout") and (j["g"], j["rule"], tuple(j["pre"]), tuple(j["inp"]), tuple(j["post"])) in model_diverges:
            continue
        if not t or "panic" in t.get("pp", {}) or "panic" in t.get("ppt", {}) or o.get("timeout") or o.get("crash") is not None:
            ctx.violation("trace recording: the real parser panicked / did not return on %s rule %s input %r" % (j["g"], j["rule"], uncps(j["inp"])),
                          {"kind": "behaviour", "grammar": next(g["text"] for g in grams if g["id"] == j["g"]), "grammar_id": j["g"], "rule": j["rule"], "input": uncps(j["inp"]), "input_cps": j["inp"], "pre": "", "post": "", "observed": o})
            continue
        pp, ppt, pf = t["pp"], t["ppt"], t["pf"]
        r = {"g": gidx[j["g"]], "rule": j["rule"], "full": j["pre"] + j["inp"] + j["post"], "lo": len(j["pre"]), "hi": len(j["pre"]) + len(j["inp"]), "ok": pp["ok"], "end": pp.get("end", 0),
             "toks": pp.get("toks", []), "stk": ppt.get("stk", []), "fullok": pf["ok"], "_job": j}
        if events:
            ev = o["t"].get("events", {})
            if "ev" not in ev.get("parse", {}):
                ctx.notes["drift_missing_hook_events"] = ctx.notes.get("drift_missing_hook_events", 0) + 1
            else:
                r["ev"] = ev["parse"]["ev"]
                if ev["check"].get("ev") != r["ev"]:
                    ctx.violation("check path emits different events than the parse path on %s rule %s input %r" % (j["g"], j["rule"], uncps(j["inp"])),
                                  {"kind": "trace", "grammar": next(g["text"] for g in grams if g["id"] == j["g"]), "rule": j["rule"], "input": uncps(j["inp"]), "parse": r["ev"][:40], "check": ev["check"].get("ev", [])[:40]})
        recs.append(r)
    d = peg.tmpdir(tag + "_tr")
    validated = 0
    rejected = 0
    work = recs
    nevents = sum(len(r.get("ev", [])) for r in recs)
    while work and rejected <= max_reject:
        tp = os.path.join(d, "trace.ndjson")
        with open(tp, "w") as f:
            for r in work:
                f.write(json.dumps({k: v for k, v in r.items() if k != "_job"}) + "\n")
        _, st = peg.run_tlc(path, tag + "_tr", cfg="PegTrace.cfg", module="PegTrace.tla", ast=ast, workers=1, emit="ev",
                            extra_env={"VERIF_TRACE": tp, "JAVA_TOOL_OPTIONS": "-Xss512m -Dtlc2.tool.queue.IStateQueue=StateDeque"})
        ctx.add_stats(st)
        if st["ok"]:
            validated += len(work)
            break
        m = re.search(r'<<"REJECTED", (\d+)>>', open(st["out"]).read())
        if not m:
            raise ToolError("TLC failed on PegTrace without naming a record:\n" + st.get("tail", "")[-3000:])
        k = int(m.group(1)) - 1
        bad = work[k]
        validated += k
        rejected += 1
        j = bad["_job"]
        gram = next(g for g in grams if g["id"] == j["g"])
        ctx.violation("recorded trace rejected by the specification (PegTrace): %s rule %s input %r: recorded ok=%s end=%s fullok=%s, %d hook events" % (
            j["g"], j["rule"], uncps(j["inp"]), bad["ok"], bad["end"], bad["fullok"], len(bad.get("ev", []))),
            {"kind": "behaviour", "grammar": gram["text"], "grammar_id": gram["id"], "opts": gram.get("opts"), "rule": j["rule"], "input": uncps(j["inp"]), "input_cps": j["inp"],
             "pre": "", "post": "", "field": "trace record", "recorded": {k2: v for k2, v in bad.items() if k2 != "_job"}})
        work = work[k + 1:]
    ctx.cov["traces_validated_against_impl"] += validated
    ctx.cov["evaluations"] += len(recs)
    t = ctx.notes.setdefault("trace_validation", {"records": 0, "accepted": 0, "rejected": 0, "hook_events": 0, "max_input_len": 0})
    t["records"] += len(recs)
    t["accepted"] += validated
    t["rejected"] += rejected
    t["hook_events"] += nevents
    t["max_input_len"] = max([t["max_input_len"]] + [len(r["full"]) for r in recs])
    if recs and len(ctx.cov["samples"]) < 6:
        r = max(recs, key=lambda r: len(r.get("ev", [])))
        ctx.cov["samples"].append({"trace_record": {k: v for k, v in r.items() if k not in ("_job", "ev")}, "events_excerpt": r.get("ev", [])[:12], "n_events": len(r.get("ev", []))})
    return validated


def selftest():
    """The binding is demonstrated, not asserted: an untouched trace is accepted; a trace with one corrupted result field,
    one corrupted hook event, or with the events of one hook removed is rejected at the right record."""
    import families, copy
    ctx = props.Ctx("SELFTEST", "quick", 1)
    st = families.fam_stack("quick")
    grams = st[:1] + [g for g in st if "&(" in g["text"]][:1] + families.fam_kinds("quick")[40:42]
    path, corpus = peg.make_corpus(grams, "selftest")
    for g, c in zip(grams, corpus):
        g["rules"] = c["rule_names"] if not g.get("entries") else g["entries"]
    shards = famgen.gen_family("selftest", grams, with_pest=False)
    bins, errs = famgen.build_family(shards)
    rnd = random.Random(5)
    jobs = []
    gidx = {g["id"]: i + 1 for i, g in enumerate(grams)}
    for g in grams:
        for r in g["rules"]:
            for inp in [x for x in g["inputs"] if len(x) >= 3][:40:3]:
                jobs.append({"idx": len(jobs), "g": g["id"], "rule": r, "inp": inp, "pre": [], "post": [], "modes": "sE"})
    res = props.run_sharded(bins, shards, jobs)
    recs = []
    for j in jobs:
        t = res[j["idx"]]["t"]
        pp, ppt, pf = t["str"]["pp"], t["str"]["ppt"], t["str"]["pf"]
        recs.append({"g": gidx[j["g"]], "rule": j["rule"], "full": j["inp"], "lo": 0, "hi": len(j["inp"]), "ok": pp["ok"], "end": pp.get("end", 0),
                     "toks": pp.get("toks", []), "stk": ppt.get("stk", []), "fullok": pf["ok"], "ev": t["events"]["parse"]["ev"]})
    d = peg.tmpdir("selftest")

    def run(rs, name):
        tp = os.path.join(d, name + ".ndjson")
        with open(tp, "w") as f:
            for r in rs:
                f.write(json.dumps(r) + "\n")
        _, st = peg.run_tlc(path, "selftest", cfg="PegTrace.cfg", module="PegTrace.tla", workers=1, emit="ev",
                            extra_env={"VERIF_TRACE": tp, "JAVA_TOOL_OPTIONS": "-Xss512m -Dtlc2.tool.queue.IStateQueue=StateDeque"})
        m = re.search(r'<<"REJECTED", (\d+)>>', open(st["out"]).read())
        return st["ok"], int(m.group(1)) if m else None
    out = {"records": len(recs), "hook_events": sum(len(r["ev"]) for r in recs)}
    out["untouched_trace"] = run(recs, "t0")
    k = next(i for i, r in enumerate(recs) if r["ok"] and r["end"] > 0 and i > 1)
    c1 = copy.deepcopy(recs)
    c1[k]["end"] += 1
    out["corrupted_end_of_record_%d" % (k + 1)] = run(c1, "t1")
    k2 = next(i for i, r in enumerate(recs) if any(e[0] == "t-" and not e[1] for e in r["ev"]) )
    c2 = copy.deepcopy(recs)
    e = next(e for e in c2[k2]["ev"] if e[0] == "t-" and not e[1])
    e[2] = e[2] + [[0, 1]]                      # a failed attempt that leaves one more stack entry behind
    out["corrupted_stack_in_event_of_record_%d" % (k2 + 1)] = run(c2, "t2")
    k3 = next(i for i, r in enumerate(recs) if any(e[0] == "p-" for e in r["ev"]))
    c3 = copy.deepcopy(recs)
    for r in c3:
        r["ev"] = [e for e in r["ev"] if e[0] != "p-"]     # as if the hook at the end of predicates had been removed
    out["hook_p-_removed_first_affected_record_%d" % (k3 + 1)] = run(c3, "t3")
    ok = (out["untouched_trace"] == (True, None) and out["corrupted_end_of_record_%d" % (k + 1)] == (False, k + 1)
          and out["corrupted_stack_in_event_of_record_%d" % (k2 + 1)] == (False, k2 + 1) and out["hook_p-_removed_first_affected_record_%d" % (k3 + 1)] == (False, k3 + 1))
    out["binding_demonstrated"] = ok
    os.makedirs(os.path.join(VERIF, "notes"), exist_ok=True)
    json.dump(out, open(os.path.join(VERIF, "notes", "selftest.json"), "w"), indent=1)
    print(json.dumps(out, indent=1))
    return 0 if ok else 2
