"""Shared helpers of the verification driver (python3 stdlib only)."""
import json, os, subprocess, sys, time, itertools, hashlib, re

VERIF = os.path.dirname(os.path.dirname(os.path.abspath(__file__)))
BUILD = os.path.join(VERIF, "build")
HARNESS = os.path.join(VERIF, "harness")
SPEC = os.path.join(VERIF, "spec")
TARGET = os.path.join(BUILD, "target")

class ToolError(Exception):
    pass

def sh(cmd, cwd=None, env=None, timeout=None, check=True, capture=True):
    e = dict(os.environ)
    if env:
        e.update(env)
    p = subprocess.run(cmd, cwd=cwd, env=e, timeout=timeout, stdout=subprocess.PIPE if capture else None,
                       stderr=subprocess.STDOUT if capture else None, text=True)
    if check and p.returncode != 0:
        raise ToolError("command failed (%d): %s\n%s" % (p.returncode, cmd if isinstance(cmd, str) else " ".join(cmd), (p.stdout or "")[-4000:]))
    return p

def cargo_env():
    e = {"CARGO_NET_OFFLINE": "true", "RUST_BACKTRACE": "0", "CARGO_TERM_COLOR": "never"}
    return e

def build_bin(pkg, profile="dev", extra_env=None):
    """cargo build of one harness package; returns path of its binary."""
    cmd = ["cargo", "build", "--offline", "-q", "-p", pkg]
    sub = "debug"
    if profile != "dev":
        cmd += ["--profile", profile]
        sub = profile
    env = cargo_env()
    if extra_env:
        env.update(extra_env)
    p = sh(cmd, cwd=HARNESS, env=env, check=False)
    return p, os.path.join(TARGET, sub, pkg)

def all_strings(alphabet, maxlen):
    out = []
    for n in range(maxlen + 1):
        for t in itertools.product(alphabet, repeat=n):
            out.append(list(t))
    return out

def cps(s):
    return [ord(c) for c in s]

def uncps(v):
    return "".join(chr(c) for c in v)


def build_bins(pkgs, profile="dev"):
    cmd = ["cargo", "build", "--offline", "-q"]
    for p in pkgs:
        cmd += ["-p", p]
    sub = "debug"
    if profile != "dev":
        cmd += ["--profile", profile]
        sub = profile
    p = sh(cmd, cwd=HARNESS, env=cargo_env(), check=False)
    return p, {k: os.path.join(TARGET, sub, k) for k in pkgs}
