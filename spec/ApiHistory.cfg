SPECIFICATION HSpec
INVARIANT ResultIsFunctionOfArguments
INVARIANT EqualityIsSane
INVARIANT Emit
CHECK_DEADLOCK FALSE
