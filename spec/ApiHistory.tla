----------------------------- MODULE ApiHistory -----------------------------
(***************************************************************************)
(* C18: parse results are values.  A history is a sequence of entry-point   *)
(* calls drawn (with repeats, in any order) from a pool of (rule, sub-range  *)
(* of one input string).  Every call starts the machine from its initial     *)
(* state - fresh stack, fresh tracker: no entry point keeps state - and the  *)
(* specification demands that the result of a call is the same wherever it   *)
(* occurs in whatever history.  Two results are Equal iff what the typed     *)
(* tree stores is identical (Canon of the derivation queue).                 *)
(***************************************************************************)
EXTENDS PegMachine

Pool == Corpus.pool                       \* sequence of [g, rule, lo, hi] (character positions)
MaxH == IF "VERIF_MAXH" \in DOMAIN IOEnv THEN atoi(IOEnv.VERIF_MAXH) ELSE 3
Ast == IF "VERIF_AST" \in DOMAIN IOEnv THEN IOEnv.VERIF_AST ELSE "opt"

VARIABLES hist, phase
hvars == <<vars, hist, phase>>

Cfg(c) == [g |-> Pool[c].g, rule |-> Pool[c].rule, full |-> Gs[Pool[c].g].full, lo |-> Pool[c].lo, hi |-> Pool[c].hi,
           ast |-> Ast, dev |-> {}, call |-> c]

HInit == /\ cfg = Cfg(1) /\ MInit /\ hist = <<>> /\ phase = "idle"

\* a call: everything the entry point creates is fresh
HCall(c) ==
  /\ phase = "idle" /\ Len(hist) < MaxH
  /\ cfg' = Cfg(c) /\ phase' = "run" /\ UNCHANGED hist
  /\ pc' = "eval" /\ cur' = [t |-> "call", n |-> Pool[c].rule] /\ ok' = TRUE
  /\ pos' = Pool[c].lo /\ stk' = <<>> /\ K' = <<>> /\ at' = "N" /\ look' = 0 /\ dep' = 0
  /\ toks' = <<>> /\ calls' = <<>> /\ cdep' = 0 /\ trk' = EmptyTrk(Pool[c].lo) /\ skp' = 0 /\ dv' = <<>> /\ log' = <<>> /\ evs' = <<>>
  /\ fin' = [ok |-> FALSE]

HStep == phase = "run" /\ ~Halted /\ MNext /\ UNCHANGED <<cfg, hist, phase>>

\* what the typed tree stores of one derivation record
Canon(x) ==
  CASE x.k = "rule" -> IF x.sil THEN <<"rule", x.r>> ELSE <<"rule", x.r, x.s, x.e>>
    [] x.k = "leaf" -> (CASE x.r \in {"str", "SOI", "DROP", "peekslice"} -> <<x.r>>
                          [] x.r \in {"EOI", "PEEK", "POP", "PEEK_ALL", "POP_ALL", "skipuntil"} -> <<x.r, x.s, x.e>>
                          [] OTHER -> <<x.r, SubSeq(Full, x.s + 1, x.e)>>)       \* the character / spelling matched
    [] x.k = "alt" -> <<"alt", x.i, x.n>>
    [] x.k = "opt" -> <<"opt", x.i>>
    [] x.k = "rep" -> <<"rep", x.n>>
    [] x.k = "seq" -> <<"seq", x.n>>
    [] OTHER -> <<x.k>>
Result == [c |-> cfg.call, rule |-> cfg.rule, ok |-> fin.ok, end |-> fin.end + BytesBetween(0, Lo),
           canon |-> IF fin.ok THEN [i \in 1..Len(fin.dv) |-> Canon(fin.dv[i])] ELSE <<>>,
           lo |-> BytesBetween(0, Lo), hi |-> BytesBetween(0, Hi)]

HReturn == phase = "run" /\ pc = "done" /\ hist' = Append(hist, Result) /\ phase' = "idle" /\ UNCHANGED vars
HNext == (\E c \in 1..Len(Pool) : HCall(c)) \/ HStep \/ HReturn
HSpec == HInit /\ [][HNext]_hvars

Equal(a, b) == a.rule = b.rule /\ a.ok /\ b.ok /\ a.canon = b.canon
\* the result of a call does not depend on what was parsed before
ResultIsFunctionOfArguments == \A i, j \in 1..Len(hist) : hist[i].c = hist[j].c => hist[i] = hist[j]
\* equality is an equivalence on results, and a result equals itself
EqualityIsSane == \A i, j \in 1..Len(hist) : (hist[i].ok => Equal(hist[i], hist[i])) /\ (Equal(hist[i], hist[j]) <=> Equal(hist[j], hist[i]))

Rec == [calls |-> [i \in 1..Len(hist) |-> [c |-> hist[i].c, rule |-> hist[i].rule, lo |-> hist[i].lo, hi |-> hist[i].hi, ok |-> hist[i].ok, end |-> hist[i].end]],
        eq |-> [i \in 1..Len(hist) |-> [j \in 1..Len(hist) |-> IF hist[i].rule # hist[j].rule \/ ~hist[i].ok \/ ~hist[j].ok THEN -1
                                                               ELSE IF Equal(hist[i], hist[j]) THEN 1 ELSE 0]]]
Emit == (phase = "idle" /\ Len(hist) = MaxH) => PrintT(<<"B", ToJson(Rec)>>)
=============================================================================
