SPECIFICATION Spec
INVARIANT BoxingEverythingIsFinite
INVARIANT MoreBoxingNeverHurts
INVARIANT RawPathNeedsNoMore
INVARIANT Emit
INVARIANT GeneratedTypesAreFinite
CHECK_DEADLOCK FALSE
