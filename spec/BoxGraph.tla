------------------------------ MODULE BoxGraph ------------------------------
(* C20, last clause: "recursive grammars still compile when boxing is reduced".                  *)
(*                                                                                               *)
(* A generated rule struct stores its content either in a Box (boxed) or by value. What the      *)
(* content stores of the rules it mentions is fixed by the typed nodes of the runtime:           *)
(*   by value : a plain mention, e?, a choice alternative, &e (Positive keeps its node), PUSH(e), *)
(*              and the first copy of e+ on the optimized path (pest unrolls it to e ~ e* )       *)
(*   on the heap : e*, e+ on the raw-AST path (a Vec)                                             *)
(*   nothing  : !e (Negative is a PhantomData); atomic rules keep only their span                 *)
(* The emitted types are finite iff no cycle of by-value edges runs through unboxed rules only.   *)
(*                                                                                               *)
(* mode "gen": TLC enumerates every grammar shape (rule kinds x how rule i mentions rule j) in    *)
(*             the bound and prints it; the statements below are checked on the specification.    *)
(* mode "val": the boxed flags the real generator emitted for those grammars (box_only_if_needed, *)
(*             both AST paths) are read back and TLC evaluates Finite on every record.            *)
EXTENDS Naturals, Sequences, FiniteSets, TLC, Json, IOUtils

N    == atoi(IOEnv.VERIF_N)
MaxE == atoi(IOEnv.VERIF_MAXE)
Mode == IOEnv.VERIF_MODE
Rich == IOEnv.VERIF_RICH = "1"
Idx  == 1..N

KindsU == IF N >= 3 THEN {"normal", "atomic", "compound"} ELSE IF Rich THEN {"normal", "atomic", "compound", "silent", "nonatomic"} ELSE {"normal", "atomic", "compound", "silent"}
EdgesU == IF Rich THEN {"val", "opt", "alt", "pos", "neg", "rep", "plus", "push"} ELSE {"val", "opt", "pos", "neg", "rep", "plus"}

VARIABLES kinds, edges, l
vars == <<kinds, edges, l>>

-----------------------------------------------------------------------------
Inline(e, ast) == e \in {"val", "opt", "alt", "pos", "push"} \/ (e = "plus" /\ ast = "opt")
HasContent(k) == k # "atomic"
InlineEdge(ks, es, ast, i, j) == HasContent(ks[i]) /\ Inline(es[i][j], ast)

\* unboxed rules reachable from S through by-value edges (n rounds are enough for n rules)
RECURSIVE Reach(_, _, _, _, _, _)
Reach(ks, es, ast, boxed, S, n) ==
  IF n = 0 THEN S
  ELSE Reach(ks, es, ast, boxed,
             S \cup {j \in 1..Len(ks) : ~boxed[j] /\ \E i \in S : InlineEdge(ks, es, ast, i, j)}, n - 1)
OnCycle(ks, es, ast, boxed, i) ==
  /\ ~boxed[i]
  /\ i \in Reach(ks, es, ast, boxed, {j \in 1..Len(ks) : ~boxed[j] /\ InlineEdge(ks, es, ast, i, j)}, Len(ks))
Finite(ks, es, ast, boxed) == \A i \in 1..Len(ks) : ~OnCycle(ks, es, ast, boxed, i)

-----------------------------------------------------------------------------
(* gen *)
Pairs == Idx \X Idx
GenInit ==
  /\ l = 0
  /\ kinds \in [Idx -> KindsU]
  /\ \E P \in SUBSET Pairs :
       /\ Cardinality(P) <= MaxE
       /\ \E f \in [P -> EdgesU] :
            edges = [i \in Idx |-> [j \in Idx |-> IF <<i, j>> \in P THEN f[<<i, j>>] ELSE "none"]]

AllBoxed == [i \in Idx |-> TRUE]
NoneBoxed == [i \in Idx |-> FALSE]
\* statements on the specification itself
BoxingEverythingIsFinite == Mode = "gen" => \A ast \in {"opt", "src"} : Finite(kinds, edges, ast, AllBoxed)
MoreBoxingNeverHurts == Mode = "gen" => \A ast \in {"opt", "src"} : \A b \in [Idx -> BOOLEAN] :
  Finite(kinds, edges, ast, b) => \A i \in Idx : Finite(kinds, edges, ast, [b EXCEPT ![i] = TRUE])
RawPathNeedsNoMore == Mode = "gen" => \A b \in [Idx -> BOOLEAN] : Finite(kinds, edges, "opt", b) => Finite(kinds, edges, "src", b)
Emit == Mode = "gen" => PrintT(<<"B", ToJson([kinds |-> kinds, edges |-> edges,
                                               need |-> [a \in {"opt", "src"} |-> ~Finite(kinds, edges, a, NoneBoxed)]])>>)

-----------------------------------------------------------------------------
(* val *)
Obs == IF Mode = "val" THEN ndJsonDeserialize(IOEnv.VERIF_OBS) ELSE <<>>
ValInit == l = 1 /\ kinds = <<>> /\ edges = <<>>
ValNext == l <= Len(Obs) /\ l' = l + 1 /\ UNCHANGED <<kinds, edges>>
GeneratedTypesAreFinite == (Mode = "val" /\ l <= Len(Obs)) =>
  LET o == Obs[l] IN Finite(o.kinds, o.edges, o.ast, o.boxed) \/ PrintT(<<"BAD", l>>)

Init == IF Mode = "gen" THEN GenInit ELSE ValInit
Next == Mode = "val" /\ ValNext
Spec == Init /\ [][Next]_vars
=============================================================================
