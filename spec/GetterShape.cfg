SPECIFICATION Spec
INVARIANT ShapesWellFormed
INVARIANT Emit
CHECK_DEADLOCK FALSE
