----------------------------- MODULE GetterShape -----------------------------
(***************************************************************************)
(* C16, the "wrapped in Option / Vec / tuple according to where x is        *)
(* mentioned" clause: the return-type shape of the generated getter r.x()   *)
(* as a function of r's expression.                                         *)
(*   Shape ::= "x" | [o: Shape] (Option) | [v: Shape] (Vec) | [t: <<Shape>>] (tuple)*)
(* a mention is the rule itself; an optional or a choice alternative wraps   *)
(* in Option (an Option of an Option collapses), a repetition wraps in Vec,  *)
(* positive predicates and PUSH are transparent, negative predicates hide    *)
(* their mentions, and the mentions of one level (sequence / choice) form    *)
(* one tuple in order of appearance, each keeping its own nesting.  One state per (grammar, rule, referenced   *)
(* rule); the expected shape is printed and compared with the signature the  *)
(* generator emits.                                                          *)
(***************************************************************************)
EXTENDS Integers, Sequences, FiniteSets, TLC, Json, IOUtils

Corpus == JsonDeserialize(IOEnv.VERIF_CORPUS)
Gs == Corpus.grammars
Ast == IF "VERIF_AST" \in DOMAIN IOEnv THEN IOEnv.VERIF_AST ELSE "opt"
VARIABLES g, r, x
Rules(gg) == IF Ast = "src" THEN Gs[gg].rules_src ELSE Gs[gg].rules_opt
Init == /\ g \in 1..Len(Gs) /\ r \in 1..Len(Rules(g)) /\ x \in 1..Len(Gs[g].names)
Next == UNCHANGED <<g, r, x>>
Spec == Init /\ [][Next]_<<g, r, x>>

None == [none |-> TRUE]
IsNone(s) == "none" \in DOMAIN s
X == [x |-> TRUE]
MkOpt(s) == IF IsNone(s) THEN None ELSE IF "o" \in DOMAIN s THEN s ELSE [o |-> s]
MkVec(s) == IF IsNone(s) THEN None ELSE [v |-> s]
\* the mentions of one level, in order of appearance: one -> itself, several -> one tuple (items keep their own nesting)
Level(l) == IF Len(l) = 0 THEN None ELSE IF Len(l) = 1 THEN l[1] ELSE [t |-> l]

RECURSIVE Shape(_, _), Items(_, _, _, _)
Shape(e, n) ==
  CASE e.t = "call" -> IF e.n = n THEN X ELSE None
    [] e.t = "seq" -> Level(Items(e.xs, 1, n, FALSE))
    [] e.t = "alt" -> Level(Items(e.xs, 1, n, TRUE))
    [] e.t = "opt" -> MkOpt(Shape(e.e, n))
    [] e.t = "rep" -> MkVec(Shape(e.e, n))
    [] e.t \in {"pos", "push", "restore"} -> Shape(e.e, n)
    [] OTHER -> None                          \* neg, leaves
Items(xs, i, n, choice) ==
  IF i > Len(xs) THEN <<>>
  ELSE LET s == IF choice THEN MkOpt(Shape(xs[i], n)) ELSE Shape(xs[i], n)
       IN (IF IsNone(s) THEN <<>> ELSE <<s>>) \o Items(xs, i + 1, n, choice)

Name == Gs[g].names[x]
Expected == Shape(Rules(g)[r].expr, Name)
\* sanity of the algebra: no Option directly inside an Option, no tuple of fewer than two items
RECURSIVE WellFormed(_)
WellFormed(s) ==
  \/ IsNone(s) \/ "x" \in DOMAIN s
  \/ ("o" \in DOMAIN s /\ ~("o" \in DOMAIN s.o) /\ WellFormed(s.o))
  \/ ("v" \in DOMAIN s /\ WellFormed(s.v))
  \/ ("t" \in DOMAIN s /\ Len(s.t) >= 2 /\ \A i \in 1..Len(s.t) : WellFormed(s.t[i]))
ShapesWellFormed == WellFormed(Expected)
Emit == PrintT(<<"B", ToJson([g |-> Gs[g].id, rule |-> Rules(g)[r].name, x |-> Name, shape |-> Expected])>>)
=============================================================================
