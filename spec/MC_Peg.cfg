SPECIFICATION Spec
INVARIANT TypeOK
INVARIANT M1_MachineIsSem
INVARIANT M6_SkipSites
INVARIANT M6b_NoSkipWhenAtomic
INVARIANT M9_TrackerTruthful
INVARIANT M11_RepBounds
INVARIANT EmitBehaviour
PROPERTY M2_FailedAttemptLeavesNoTrace
CHECK_DEADLOCK FALSE
