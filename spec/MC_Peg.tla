------------------------------- MODULE MC_Peg -------------------------------
(***************************************************************************)
(* Model-checking instance: every (grammar, entry rule, input, context) of  *)
(* the corpus is one initial state; TLC runs the machine on each, checks    *)
(* the invariants in every state, and prints one behaviour record per run   *)
(* (direction A: every model behaviour becomes an implementation test).     *)
(***************************************************************************)
EXTENDS PegMachine

Ast == IF "VERIF_AST" \in DOMAIN IOEnv THEN IOEnv.VERIF_AST ELSE "opt"
Devs == IF "VERIF_DEV" \in DOMAIN IOEnv /\ IOEnv.VERIF_DEV # "" THEN {IOEnv.VERIF_DEV} ELSE {}
EmitMode == IF "VERIF_EMIT" \in DOMAIN IOEnv THEN IOEnv.VERIF_EMIT ELSE "core"

Init ==
  /\ \E g \in 1..Len(Gs) :
       \E r \in 1..Len(Gs[g].entries) :
         \E i \in 1..Len(Gs[g].inputs) :
           \E c \in 1..Len(Gs[g].ctxs) :
             LET pre == Gs[g].ctxs[c][1]
                 post == Gs[g].ctxs[c][2]
                 inp == Gs[g].inputs[i]
             IN cfg = [g |-> g, rule |-> Gs[g].entries[r], full |-> pre \o inp \o post,
                       lo |-> Len(pre), hi |-> Len(pre) + Len(inp), ast |-> Ast, dev |-> Devs,
                       ii |-> i, ci |-> c]
  /\ MInit

Next == MNext /\ UNCHANGED cfg
Spec == Init /\ [][Next]_vars
FairSpec == Spec /\ WF_vars(Next)

--------------------------------------------------------------------------
(* Invariants *)

TypeOK ==
  /\ pc \in {"eval", "ret", "trail", "eoi", "done", "diverged", "overflow"}
  /\ pos \in Lo..Hi
  /\ at \in {"N", "C", "A"}
  /\ look >= 0 /\ skp >= 0 /\ dep >= 0
  /\ \A i \in 1..Len(stk) : Lo <= stk[i][1] /\ stk[i][1] <= stk[i][2] /\ stk[i][2] <= Hi
  /\ \A i \in 1..Len(toks) : Lo <= toks[i].s /\ toks[i].s <= toks[i].e /\ toks[i].e <= Hi
  /\ trk.pos \in Lo..Hi

\* M1: the operational machine (explicit save / restore) = the denotation (immutable stack)
ByteToks(t) == [i \in 1..Len(t) |-> <<t[i].r, Off(t[i].s), Off(t[i].e), t[i].d>>]
M1_MachineIsSem ==
  pc = "done" =>
    LET r == SemEntry IN
    /\ fin.ok = r.ok
    /\ fin.ok => (fin.endc = r.p /\ fin.stk = r.s /\ fin.toks = r.t)
    /\ (fin.ok /\ "fullok" \in DOMAIN fin) => fin.fullok = SemFull.ok

\* M2 (C05): a finished attempt that failed, and every predicate, leaves cursor and stack as saved.
\* Stated on the step: checked as an action property.
AttemptFrames == {"alt", "opt", "rep", "pred", "skip"}
M2_FailedAttemptLeavesNoTrace ==
  [][ (pc = "ret" /\ K # <<>> /\ Top.f \in AttemptFrames /\ (Top.f = "pred" \/ ~ok) /\ (Top.f # "rep" \/ Top.ph = "elem"))
        => (pos' = Top.p0 /\ stk' = Top.s0) ]_vars

\* M6 (C07): an implicit skip is only ever started from a sequence, a repetition (i > 0) or the
\* trailing position of a full parse, and consumes only in non-atomic context
M6_SkipSites ==
  (pc = "eval" /\ cur.t = "skip") =>
     /\ K # <<>> /\ Top.f \in {"seqskip", "rep", "trail"}
     /\ (Top.f = "rep" => Top.i > 0 /\ Top.ph = "skip")
M6b_NoSkipWhenAtomic == (K # <<>> /\ Top.f = "skip") => at = "N" \/ pc = "ret"

\* M9 (C10): the tracker's claims are truthful w.r.t. the invocation log, its position is not
\* before the matched prefix
Claimed(att, which) == UNION {{att[i][which][j] : j \in 1..Len(att[i][which])} : i \in 1..Len(att)}
M9_TrackerTruthful ==
  (RecLog /\ pc = "done") =>
    /\ \A r \in Claimed(trk.att, "p") : \E i \in 1..Len(log) : log[i].r = r /\ log[i].at = trk.pos /\ ~log[i].ok
    /\ \A r \in Claimed(trk.att, "n") : \E i \in 1..Len(log) : log[i].r = r /\ log[i].at = trk.pos /\ log[i].ok
    /\ (fin.ok /\ "fullok" \in DOMAIN fin /\ ~fin.fullok) => trk.pos >= fin.endc

\* M11 (C19): a repetition never runs more than max iterations
M11_RepBounds == \A i \in 1..Len(K) : K[i].f = "rep" => (K[i].e.max < 0 \/ K[i].i < K[i].e.max)

\* M10 (C11): well-founded grammars terminate (checked under FairSpec)
Terminates == <>(Halted)
TerminatesDone == <>(pc = "done")
NeverOverflows == pc # "overflow"

--------------------------------------------------------------------------
(* Behaviour records *)

ByteCalls(c) == [i \in 1..Len(c) |-> <<c[i].r, Off(c[i].s), Off(c[i].e), c[i].d, c[i].sil>>]
ByteLog(l) == [i \in 1..Len(l) |-> <<l[i].r, Off(l[i].at), l[i].ok>>]
ByteStk(s) == [i \in 1..Len(s) |-> <<Off(s[i][1]), Off(s[i][2])>>]
Base == [g |-> Gram.id, rule |-> cfg.rule, ii |-> cfg.ii, ci |-> cfg.ci, pc |-> pc]
Core == [ok |-> fin.ok, end |-> fin.end, toks |-> ByteToks(fin.toks), ptoks |-> ByteToks(Prune(fin.toks)),
         stk |-> ByteStk(fin.stk), trk |-> fin.trk,
         full |-> IF "fullok" \in DOMAIN fin THEN [ok |-> fin.fullok, end |-> fin.fullend, trk |-> fin.fulltrk]
                  ELSE [ok |-> FALSE, end |-> -1, trk |-> fin.trk]]
\* derivation records with byte offsets
DvB(x) == [f \in DOMAIN x |-> IF f \in {"s", "m", "e"} THEN Off(x[f]) ELSE x[f]]
ByteDv(q) == [i \in 1..Len(q) |-> DvB(q[i])]
\* hook events with byte offsets
EvB(e) == CASE e[1] = "r+" -> <<"r+", e[2], Off(e[3])>>
            [] e[1] = "r-" -> <<"r-", e[2], Off(e[3]), e[4]>>
            [] e[1] = "t+" -> <<"t+", ByteStk(e[2])>>
            [] e[1] = "t-" -> <<"t-", e[2], ByteStk(e[3])>>
            [] e[1] = "p+" -> <<"p+", e[2], ByteStk(e[3])>>
            [] e[1] = "p-" -> <<"p-", e[2], ByteStk(e[3])>>
            [] OTHER -> <<e[1], ByteStk(e[2])>>
ByteEv(q) == [i \in 1..Len(q) |-> EvB(q[i])]
Extra == IF EmitMode = "all" THEN [calls |-> ByteCalls(fin.calls), log |-> ByteLog(log), plog |-> ByteLog(fin.log)]
         ELSE IF EmitMode = "dv" THEN [calls |-> ByteCalls(fin.calls), dv |-> ByteDv(fin.dv)]
         ELSE IF EmitMode = "ev" THEN [ev |-> ByteEv(fin.evs)] ELSE [x |-> 0]
Record == IF pc = "done" THEN Base @@ Core @@ Extra ELSE Base

EmitBehaviour == Halted => PrintT(<<"B", ToJson(Record)>>)
=============================================================================
