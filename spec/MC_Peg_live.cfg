SPECIFICATION FairSpec
INVARIANT TypeOK
INVARIANT NeverOverflows
PROPERTY TerminatesDone
CHECK_DEADLOCK FALSE
