----------------------------- MODULE PegGrammar -----------------------------
(***************************************************************************)
(* Syntax of pest grammars as the specification sees them, and the program  *)
(* + input configuration `cfg` a run is about.                              *)
(*                                                                          *)
(* The corpus (JSON, written by tools/pest2json from pest_meta's own reading *)
(* of each .pest file) is a sequence of grammars                            *)
(*   [id, valid, rules_src, rules_opt, props, inputs, ctxs]                 *)
(* rules_* : sequence of [name, ty, expr]; ty \in {normal, silent, atomic,  *)
(* compound, nonatomic}; expr is a record tagged by field t:                *)
(*   str(s) insens(s) range(lo,hi) call(n) seq(xs) alt(xs) opt(e)           *)
(*   rep(e,min,max)  (max = -1: unbounded)   pos(e) neg(e) push(e)          *)
(*   restore(e) peekslice(a,hasb,b) skipuntil(ns)                           *)
(* Characters are code points (integers), strings are sequences of them.    *)
(* Positions are character indices into cfg.full; Off converts to bytes.    *)
(***************************************************************************)
EXTENDS Integers, Sequences, FiniteSets, TLC, Json, IOUtils

Corpus == JsonDeserialize(IOEnv.VERIF_CORPUS)
Gs == Corpus.grammars

VARIABLE cfg   \* [g, rule, full, lo, hi, ast, dev]

\* which ghost / projection queues a run records (they only cost state size): VERIF_EMIT = core | all | dv | ev
Mode == IF "VERIF_EMIT" \in DOMAIN IOEnv THEN IOEnv.VERIF_EMIT ELSE "core"
RecEv == Mode = "ev"
RecDv == Mode = "dv"
RecLog == Mode = "all"
RecCalls == Mode \in {"dv", "all"}

Gram == Gs[cfg.g]
Rules == IF cfg.ast = "src" THEN Gram.rules_src ELSE Gram.rules_opt
HasRule(n) == \E i \in 1..Len(Rules) : Rules[i].name = n
RuleOf(n) == Rules[CHOOSE i \in 1..Len(Rules) : Rules[i].name = n]
Full == cfg.full
Lo == cfg.lo
Hi == cfg.hi
Dev(x) == x \in cfg.dev           \* named deviation switched on (explains a known finding)

IsSkipRule(n) == n = "WHITESPACE" \/ n = "COMMENT"
HasWS == HasRule("WHITESPACE")
HasCM == HasRule("COMMENT")

\* UTF-8 width of a code point
W(c) == IF c < 128 THEN 1 ELSE IF c < 2048 THEN 2 ELSE IF c < 65536 THEN 3 ELSE 4
RECURSIVE BytesBetween(_, _)
BytesBetween(i, j) == IF j <= i THEN 0 ELSE W(Full[j]) + BytesBetween(i, j - 1)
\* byte offset of character position p, relative to the start of the (sub-)input
Off(p) == BytesBetween(Lo, p)

\* ASCII-only case folding (eq_ignore_ascii_case)
Fold(c) == IF c >= 65 /\ c <= 90 THEN c + 32 ELSE c
PrefixAt(w, p) == p + Len(w) <= Hi /\ \A i \in 1..Len(w) : Full[p + i] = w[i]
PrefixAtI(w, p) == p + Len(w) <= Hi /\ \A i \in 1..Len(w) : Fold(Full[p + i]) = Fold(w[i])
Text(sp) == SubSeq(Full, sp[1] + 1, sp[2])

\* built-in character classes: membership table computed by pest2json with pest's own tables
IsClass(n) == n \in DOMAIN Gram.props
InClass(n, c) == \E i \in 1..Len(Gram.props[n]) : Gram.props[n][i] = c

\* Index normalisation of PEEK[a..b] (pest's parser_state.rs)
Norm(i, len) == IF i > len THEN -1 ELSE IF i >= 0 THEN i ELSE IF len + i >= 0 THEN len + i ELSE -1

Rev(s) == [i \in 1..Len(s) |-> s[Len(s) + 1 - i]]

\* position after matching the texts of spans `sps` one after another from p; -1 on mismatch
RECURSIVE MatchAll(_, _, _)
MatchAll(sps, i, p) ==
  IF i > Len(sps) THEN p
  ELSE IF PrefixAt(Text(sps[i]), p) THEN MatchAll(sps, i + 1, p + Len(Text(sps[i]))) ELSE -1

\* skip-until: first position >= p where one of the needles starts (wholly inside the input), else Hi
RECURSIVE Until(_, _)
Until(ns, p) ==
  IF p >= Hi THEN Hi
  ELSE IF \E i \in 1..Len(ns) : PrefixAt(ns[i], p) THEN p ELSE Until(ns, p + 1)

\* the slice PEEK[a..b] denotes on stack s: <<ok, spans bottom-to-top>>
SliceOf(e, s) ==
  LET len == Len(s)
      lo == Norm(e.a, len)
      hi == IF e.hasb THEN Norm(e.b, len) ELSE len
  IN IF lo < 0 \/ hi < 0 THEN <<FALSE, <<>>>>
     ELSE IF hi <= lo THEN <<TRUE, <<>>>> ELSE <<TRUE, SubSeq(s, lo + 1, hi)>>

\* pest's three-valued atomicity: "N" NonAtomic, "C" CompoundAtomic, "A" Atomic.
\* atomicity seen by ParserState::rule (decides token emission), and of the body
\* "NS" = the non-atomic context of an implicit skip (only ever the argument of a WHITESPACE / COMMENT call)
AtomSeen(rl, a) == CASE rl.ty = "compound" -> "C" [] rl.ty = "nonatomic" -> "N" [] OTHER -> IF a = "NS" THEN "N" ELSE a
\* pest wraps the bodies of WHITESPACE and COMMENT in atomic(Atomic, ..) whatever their kind and caller.
\* Named deviation "typed_ws" (what pest-typed 0.17.2 does instead, known finding): only the implicit
\* use of a declaration that is not `!` runs with skipping off; explicit references inherit the caller's mode.
AtomBody(rl, a) ==
  CASE rl.ty = "atomic" -> "A"
    [] rl.ty = "compound" -> "C"
    [] IsSkipRule(rl.name) /\ ~Dev("typed_ws") -> "A"
    [] IsSkipRule(rl.name) /\ a = "NS" -> IF rl.ty = "nonatomic" THEN "N" ELSE "A"
    [] OTHER -> AtomSeen(rl, a)
\* a non-silent rule yields a token unless under lookahead or entered in Atomic mode; under the deviation the
\* typed tree keeps every non-silent rule (only the documented pruning below @ / $ tokens applies)
Emits(rl, a1, inlook) == ~inlook /\ rl.ty # "silent" /\ (a1 # "A" \/ Dev("typed_ws"))
EmitsEoi(a, inlook) == ~inlook /\ (a # "A" \/ Dev("typed_ws"))
=============================================================================
