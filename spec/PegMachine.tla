----------------------------- MODULE PegMachine -----------------------------
(***************************************************************************)
(* The implementation-shaped small-step machine of the pest-typed runtime.  *)
(*                                                                          *)
(* One run = one call of an entry point (try_parse_partial, then the full-  *)
(* parse continuation: trailing skip + end-of-input test) on the program    *)
(* and input in `cfg`.  State = the three pieces of mutable state threaded   *)
(* through every combinator of main/src (input cursor `pos`, parse stack    *)
(* `stk`, error tracker `trk`) plus the control stack `K` that the Rust call *)
(* stack is, plus what the result tree exposes (`toks`, `calls`).           *)
(* One named action per critical section of the runtime:                    *)
(*   leaves      MatchStr MatchInsens MatchRange CharClass Soi Newline      *)
(*               SkipUntil Peek PeekAll Pop PopAll Drop PeekSlice           *)
(*   sequence    SeqEnter SeqElemOk SeqSkipDone SeqFail                     *)
(*   choice      AltEnter AltOk AltFail                                     *)
(*   optional    OptEnter OptOk OptFail                                     *)
(*   repetition  RepEnter RepSkipDone RepIterOk RepIterFail RepDiverge      *)
(*   predicates  PredEnter PredExit                                         *)
(*   rules       RuleEnter RuleExit EoiRule UndefinedSkipRule               *)
(*   stack       PushEnter PushExit                                         *)
(*   skipping    SkipNone SkipBegin SkipTryWS SkipWSFail SkipIterOk SkipEnd *)
(*   entry       PartialDone TrailDone Finish                               *)
(* Attempt frames (alt, opt, rep iteration, pred, implicit-skip iteration)  *)
(* save cursor, stack, token and call queues; a failed attempt restores all *)
(* four (C05).  A predicate restores cursor and stack always.               *)
(***************************************************************************)
EXTENDS PegSem

VARIABLES
  pc,      \* "eval" | "ret" | "trail" | "eoi" | "done" | "diverged" | "overflow"
  cur,     \* expression under evaluation (pc = "eval")
  ok,      \* verdict being returned (pc = "ret")
  pos,     \* cursor, character index in Lo..Hi
  stk,     \* parse stack: sequence of <<start, end>> (character indices), bottom first
  K,       \* control stack (frames), top first
  at,      \* pest atomicity of the context: "N" | "C" | "A"
  look,    \* nesting depth of predicates
  dep,     \* token depth
  toks,    \* pest's token queue (pre-order [r, s, e, d]); end patched at RuleExit
  calls,   \* rule-call queue for getters: [r, s, e, d, sil]; like toks but with silent rules,
           \* calls under positive predicates and in atomic context, without skipped rules
  cdep,    \* call depth (for `calls`)
  trk,     \* error tracker: [pos, positive, att, stack]
  skp,     \* nesting depth of implicit skips (they run under a throw-away tracker)
  dv,      \* derivation events in pre-order (what the typed tree stores): rule / leaf / alt / opt / rep / iter /
           \* seq / elem / push records, patched on success, truncated on failure
  log,     \* ghost: every invocation of a non-silent rule [r, at, ok]
  evs,     \* ghost: the events the instrumented runtime emits (hooks behind --cfg pest_typed_verif): rule enter / exit,
           \* attempt begin / end and predicate begin / end with the stack contents, PUSH; never truncated
  fin      \* results collected at the end of the partial phase

mvars == <<pc, cur, ok, pos, stk, K, at, look, dep, toks, calls, cdep, trk, skp, dv, log, evs, fin>>
vars == <<cfg, mvars>>

StackBound == 400
DataBound == 200

--------------------------------------------------------------------------
(* Tracker (main/src/tracker.rs) *)

NoUpper == "-"
EmptyTrk(p) == [pos |-> p, positive |-> TRUE, att |-> <<>>, stack |-> <<>>]
\* att: sequence of [u, p, n, s] entries (u = upper rule or "-"), kept in insertion order

TrkPrepare(t, p) ==
  IF p < t.pos THEN [t |-> t, ok |-> FALSE]
  ELSE IF p = t.pos THEN [t |-> t, ok |-> TRUE]
  ELSE [t |-> [t EXCEPT !.pos = p, !.att = <<>>], ok |-> TRUE]

\* nearest enclosing rule that started at a different position
RECURSIVE UpperFrom(_, _, _)
UpperFrom(st, i, p) ==
  IF i < 1 THEN NoUpper ELSE IF st[i].at # p THEN st[i].r ELSE UpperFrom(st, i - 1, p)
TrkUpper(t, p) == UpperFrom(t.stack, Len(t.stack), p)

AttIdx(att, u) == IF \E i \in 1..Len(att) : att[i].u = u
                  THEN CHOOSE i \in 1..Len(att) : att[i].u = u ELSE 0
AttWith(att, u) == IF AttIdx(att, u) = 0 THEN Append(att, [u |-> u, p |-> <<>>, n |-> <<>>, s |-> <<>>]) ELSE att
AppendNoDup(v, r) == IF Len(v) > 0 /\ v[Len(v)] = r THEN v ELSE Append(v, r)

TrkSpecial(t, p, what) ==
  LET pr == TrkPrepare(t, p) IN
  IF ~pr.ok THEN pr.t
  ELSE LET u == TrkUpper(pr.t, p)
           a2 == AttWith(pr.t.att, u)
           i == AttIdx(a2, u)
       IN [pr.t EXCEPT !.att = [a2 EXCEPT ![i].s = Append(@, what)]]

\* record(rule, pos, succeeded): prepare first (this moves the furthest position even when
\* nothing is recorded), then record iff succeeded # positive
TrkRecord(t, r, p, succ) ==
  LET pr == TrkPrepare(t, p) IN
  IF ~pr.ok \/ succ = pr.t.positive THEN pr.t
  ELSE LET u == TrkUpper(pr.t, p)
           a2 == AttWith(pr.t.att, u)
           i == AttIdx(a2, u)
       IN IF pr.t.positive
          THEN [pr.t EXCEPT !.att = [a2 EXCEPT ![i].p = AppendNoDup(@, r)]]
          ELSE [pr.t EXCEPT !.att = [a2 EXCEPT ![i].n = AppendNoDup(@, r)]]

TrkPush(t, r, p) ==
  LET st == IF Len(t.stack) > 0 THEN [t.stack EXCEPT ![Len(t.stack)].hc = TRUE] ELSE t.stack
  IN [t EXCEPT !.stack = Append(st, [r |-> r, at |-> p, hc |-> FALSE])]
TrkPop(t, r, p, succ) ==
  LET top == t.stack[Len(t.stack)]
      t2 == [t EXCEPT !.stack = SubSeq(t.stack, 1, Len(t.stack) - 1)]
  IN IF top.hc THEN t2 ELSE TrkRecord(t2, r, p, succ)

--------------------------------------------------------------------------
(* Helpers *)

Top == K[1]
Below == Tail(K)
Enter(fr, e) == /\ pc' = "eval" /\ cur' = e /\ K' = <<fr>> \o K
PopRet(b) == /\ pc' = "ret" /\ ok' = b /\ K' = Below

\* UNCHANGED groups
UEnv == UNCHANGED <<cfg, fin>>
UTree == UNCHANGED <<at, look, dep, toks, calls, cdep>>
UDv == UNCHANGED dv

\* derivation queue; a frame remembers the index of its record (0 = none).  The nodes matched by implicit skips are
\* part of the typed tree (Skipped.skipped), so they are recorded too (below the iter / elem record that owns them).
DvOn == RecDv
DvIdx == IF DvOn THEN Len(dv) + 1 ELSE 0
DvApp(q, ev) == IF DvOn THEN Append(q, ev @@ [d |-> cdep]) ELSE q
LeafKind == IF cur.t = "call" THEN cur.n ELSE cur.t
UTrk == UNCHANGED <<trk, skp, log>>
UEv == UNCHANGED evs
EvApp(q, x) == IF RecEv THEN Append(q, x) ELSE q
EvCat(q, xs) == IF RecEv THEN q \o xs ELSE q
LogApp(q, x) == IF RecLog THEN Append(q, x) ELSE q
CallApp(q, x) == IF RecCalls THEN Append(q, x) ELSE q
TB(s) == <<"t+", s>>
TE(b, s) == <<"t-", b, s>>
Both == HasWS /\ HasCM

Leaf(b, p) == /\ pc' = "ret" /\ ok' = b /\ pos' = p
              /\ dv' = (IF b THEN DvApp(dv, [k |-> "leaf", r |-> LeafKind, s |-> pos, e |-> p]) ELSE dv)
              /\ UNCHANGED <<cur, K, stk>> /\ UEnv /\ UTree /\ UTrk /\ UEv
LeafE(b, p, ev) == /\ pc' = "ret" /\ ok' = b /\ pos' = p /\ evs' = EvCat(evs, ev)
              /\ dv' = (IF b THEN DvApp(dv, [k |-> "leaf", r |-> LeafKind, s |-> pos, e |-> p]) ELSE dv)
              /\ UNCHANGED <<cur, K, stk>> /\ UEnv /\ UTree /\ UTrk
LeafS(b, p, s) == /\ pc' = "ret" /\ ok' = b /\ pos' = p /\ stk' = s
                  /\ dv' = (IF b THEN DvApp(dv, [k |-> "leaf", r |-> LeafKind, s |-> pos, e |-> p]) ELSE dv)
                  /\ UNCHANGED <<cur, K>> /\ UEnv /\ UTree /\ UTrk /\ UEv
\* a failing stack built-in that reports a special error (only on the main tracker)
LeafErr(what) == /\ pc' = "ret" /\ ok' = FALSE
                 /\ trk' = (IF skp = 0 THEN TrkSpecial(trk, pos, what) ELSE trk)
                 /\ UNCHANGED <<cur, K, stk, pos, skp, log>> /\ UEnv /\ UTree /\ UDv /\ UEv

Evaluating(t) == pc = "eval" /\ cur.t = t
CallOf(n) == pc = "eval" /\ cur.t = "call" /\ cur.n = n /\ ~HasRule(n)
Returning(f) == pc = "ret" /\ K # <<>> /\ Top.f = f

SavedV(v) == [p0 |-> pos, s0 |-> stk, t0 |-> Len(toks), c0 |-> Len(calls), v0 |-> v]
Saved == SavedV(Len(dv))
\* undo a failed attempt: cursor, stack, token queue, call queue, derivation queue
Restore(fr) == /\ pos' = fr.p0 /\ stk' = fr.s0
               /\ toks' = SubSeq(toks, 1, fr.t0) /\ calls' = SubSeq(calls, 1, fr.c0) /\ dv' = SubSeq(dv, 1, fr.v0)
Patch(q, i, f, v) == IF i > 0 THEN [q EXCEPT ![i] = [@ EXCEPT ![f] = v]] ELSE q
Cut(q, i) == IF i > 0 THEN SubSeq(q, 1, i - 1) ELSE q

SkipExpr == [t |-> "skip"]

--------------------------------------------------------------------------
(* Leaves: Input methods (main/src/input.rs) and leaf nodes (predefined_node/mod.rs) *)

MatchStr == Evaluating("str") /\
  IF PrefixAt(cur.s, pos) THEN Leaf(TRUE, pos + Len(cur.s)) ELSE Leaf(FALSE, pos)

MatchInsens == Evaluating("insens") /\
  IF PrefixAtI(cur.s, pos) THEN Leaf(TRUE, pos + Len(cur.s)) ELSE Leaf(FALSE, pos)

MatchRange == Evaluating("range") /\
  IF pos < Hi /\ cur.lo <= Full[pos + 1] /\ Full[pos + 1] <= cur.hi THEN Leaf(TRUE, pos + 1) ELSE Leaf(FALSE, pos)

\* three ASCII classes are library choices over ranges (Choice2 / Choice3), so matching them goes through attempts
InR(lo, hi) == pos < Hi /\ lo <= Full[pos + 1] /\ Full[pos + 1] <= hi
RECURSIVE ChoiceEv(_, _)
\* alts: sequence of [ev, ok]; events of trying them in order until one succeeds
ChoiceEv(alts, i) == IF i > Len(alts) THEN <<>>
                     ELSE <<TB(stk)>> \o alts[i].ev \o <<TE(alts[i].ok, stk)>> \o (IF alts[i].ok THEN <<>> ELSE ChoiceEv(alts, i + 1))
Rng(lo, hi) == [ev |-> <<>>, ok |-> InR(lo, hi)]
AlphaAlts == <<Rng(97, 122), Rng(65, 90)>>
ClassEv(n) == CASE n = "ASCII_ALPHA" -> ChoiceEv(AlphaAlts, 1)
                [] n = "ASCII_ALPHANUMERIC" -> ChoiceEv(<<[ev |-> ChoiceEv(AlphaAlts, 1), ok |-> InR(97, 122) \/ InR(65, 90)], Rng(48, 57)>>, 1)
                [] n = "ASCII_HEX_DIGIT" -> ChoiceEv(<<Rng(48, 57), Rng(97, 102), Rng(65, 70)>>, 1)
                [] OTHER -> <<>>
CharClass == pc = "eval" /\ cur.t = "call" /\ ~HasRule(cur.n) /\ (cur.n = "ANY" \/ IsClass(cur.n)) /\
  IF pos < Hi /\ (cur.n = "ANY" \/ InClass(cur.n, Full[pos + 1])) THEN LeafE(TRUE, pos + 1, ClassEv(cur.n)) ELSE LeafE(FALSE, pos, ClassEv(cur.n))

Soi == CallOf("SOI") /\ Leaf(pos = Lo, pos)

Newline == CallOf("NEWLINE") /\
  IF PrefixAt(<<13, 10>>, pos) THEN Leaf(TRUE, pos + 2)
  ELSE IF PrefixAt(<<10>>, pos) \/ PrefixAt(<<13>>, pos) THEN Leaf(TRUE, pos + 1) ELSE Leaf(FALSE, pos)

SkipUntil == Evaluating("skipuntil") /\ Leaf(TRUE, Until(cur.ns, pos))

Peek == CallOf("PEEK") /\
  IF stk = <<>> THEN LeafErr("empty")
  ELSE LET q == MatchAll(<<stk[Len(stk)]>>, 1, pos) IN IF q >= 0 THEN Leaf(TRUE, q) ELSE Leaf(FALSE, pos)

PeekAll == CallOf("PEEK_ALL") /\
  LET q == MatchAll(Rev(stk), 1, pos) IN IF q >= 0 THEN Leaf(TRUE, q) ELSE Leaf(FALSE, pos)

\* POP pops first and then matches: on a mismatch the stack stays popped until the
\* enclosing attempt restores it
Pop == CallOf("POP") /\
  IF stk = <<>> THEN LeafErr("empty")
  ELSE LET q == MatchAll(<<stk[Len(stk)]>>, 1, pos) IN
       IF q >= 0 THEN LeafS(TRUE, q, SubSeq(stk, 1, Len(stk) - 1))
       ELSE LeafS(FALSE, pos, SubSeq(stk, 1, Len(stk) - 1))

PopAll == CallOf("POP_ALL") /\
  LET q == MatchAll(Rev(stk), 1, pos) IN IF q >= 0 THEN LeafS(TRUE, q, <<>>) ELSE Leaf(FALSE, pos)

Drop == CallOf("DROP") /\
  IF stk = <<>> THEN LeafErr("empty") ELSE LeafS(TRUE, pos, SubSeq(stk, 1, Len(stk) - 1))

PeekSlice == Evaluating("peekslice") /\
  LET sl == SliceOf(cur, stk) IN
  IF ~sl[1] THEN LeafErr("oob")
  ELSE LET q == MatchAll(sl[2], 1, pos) IN IF q >= 0 THEN Leaf(TRUE, q) ELSE Leaf(FALSE, pos)

\* WHITESPACE / COMMENT referenced but not defined: AlwaysFail
UndefinedSkipRule == pc = "eval" /\ cur.t = "call" /\ ~HasRule(cur.n) /\ IsSkipRule(cur.n) /\ Leaf(FALSE, pos)

--------------------------------------------------------------------------
(* Sequence (main/src/sequence.rs): skip before every element but the first *)

SeqEnter == Evaluating("seq") /\ Enter([f |-> "seq", xs |-> cur.xs, i |-> 1, vi |-> DvIdx, ei |-> IF DvOn THEN Len(dv) + 2 ELSE 0], cur.xs[1])
            /\ dv' = DvApp(DvApp(dv, [k |-> "seq", s |-> pos, e |-> pos, n |-> Len(cur.xs)]), [k |-> "elem", i |-> 1, s |-> pos, m |-> pos, e |-> pos])
            /\ UNCHANGED <<ok, pos, stk>> /\ UEnv /\ UTree /\ UTrk /\ UEv

SeqElemOk == Returning("seq") /\ ok /\
  IF Top.i = Len(Top.xs)
  THEN PopRet(TRUE) /\ dv' = Patch(Patch(dv, Top.ei, "e", pos), Top.vi, "e", pos)
       /\ UNCHANGED <<cur, pos, stk>> /\ UEnv /\ UTree /\ UTrk /\ UEv
  ELSE /\ pc' = "eval" /\ cur' = SkipExpr
       /\ K' = <<[f |-> "seqskip", xs |-> Top.xs, i |-> Top.i, vi |-> Top.vi, ss |-> pos]>> \o Below
       /\ dv' = Patch(dv, Top.ei, "e", pos)
       /\ UNCHANGED <<ok, pos, stk>> /\ UEnv /\ UTree /\ UTrk /\ UEv

SeqSkipDone == Returning("seqskip") /\
  /\ pc' = "eval" /\ cur' = Top.xs[Top.i + 1]
  /\ K' = <<[f |-> "seq", xs |-> Top.xs, i |-> Top.i + 1, vi |-> Top.vi, ei |-> DvIdx]>> \o Below
  /\ dv' = DvApp(dv, [k |-> "elem", i |-> Top.i + 1, s |-> Top.ss, m |-> pos, e |-> pos])
  /\ UNCHANGED <<ok, pos, stk>> /\ UEnv /\ UTree /\ UTrk /\ UEv

SeqFail == Returning("seq") /\ ~ok /\ PopRet(FALSE) /\ dv' = Cut(dv, Top.vi) /\ UNCHANGED <<cur, pos, stk>> /\ UEnv /\ UTree /\ UTrk /\ UEv

--------------------------------------------------------------------------
(* Choice (main/src/choices.rs): every alternative inside restore_on_none *)

AltEnter == Evaluating("alt") /\
  LET dv2 == DvApp(dv, [k |-> "alt", s |-> pos, e |-> pos, i |-> 0, n |-> Len(cur.xs)]) IN
  /\ Enter([f |-> "alt", xs |-> cur.xs, i |-> 1, vi |-> DvIdx] @@ SavedV(Len(dv2)), cur.xs[1]) /\ dv' = dv2
  /\ evs' = EvApp(evs, TB(stk))
  /\ UNCHANGED <<ok, pos, stk>> /\ UEnv /\ UTree /\ UTrk

AltOk == Returning("alt") /\ ok /\ PopRet(TRUE) /\ dv' = Patch(Patch(dv, Top.vi, "i", Top.i - 1), Top.vi, "e", pos)
         /\ evs' = EvApp(evs, TE(TRUE, stk))
         /\ UNCHANGED <<cur, pos, stk>> /\ UEnv /\ UTree /\ UTrk

AltFail == Returning("alt") /\ ~ok /\
  (IF Top.i < Len(Top.xs)
   THEN /\ Restore(Top) /\ pc' = "eval" /\ cur' = Top.xs[Top.i + 1] /\ K' = <<[Top EXCEPT !.i = @ + 1]>> \o Below /\ UNCHANGED ok
        /\ evs' = EvCat(evs, <<TE(FALSE, Top.s0), TB(Top.s0)>>)
   ELSE /\ Restore([Top EXCEPT !.v0 = IF Top.vi > 0 THEN Top.vi - 1 ELSE Top.v0]) /\ PopRet(FALSE) /\ UNCHANGED cur
        /\ evs' = EvApp(evs, TE(FALSE, Top.s0)))
  /\ UNCHANGED <<at, look, dep, cdep>> /\ UEnv /\ UTrk

--------------------------------------------------------------------------
(* Optional (main/src/typed_node.rs) *)

OptEnter == Evaluating("opt") /\
  LET dv2 == DvApp(dv, [k |-> "opt", s |-> pos, e |-> pos, i |-> 0]) IN
  /\ Enter([f |-> "opt", vi |-> DvIdx] @@ SavedV(Len(dv2)), cur.e) /\ dv' = dv2
  /\ evs' = EvApp(evs, TB(stk))
  /\ UNCHANGED <<ok, pos, stk>> /\ UEnv /\ UTree /\ UTrk
OptOk == Returning("opt") /\ ok /\ PopRet(TRUE) /\ dv' = Patch(Patch(dv, Top.vi, "i", 1), Top.vi, "e", pos)
         /\ evs' = EvApp(evs, TE(TRUE, stk))
         /\ UNCHANGED <<cur, pos, stk>> /\ UEnv /\ UTree /\ UTrk
OptFail == Returning("opt") /\ ~ok /\ Restore(Top) /\ PopRet(TRUE) /\ evs' = EvApp(evs, TE(FALSE, Top.s0))
           /\ UNCHANGED <<cur, at, look, dep, cdep>> /\ UEnv /\ UTrk

\* RestoreOnErr of pest's optimizer is transparent (every attempt restores anyway)
RestoreNode == Evaluating("restore") /\ pc' = "eval" /\ cur' = cur.e
               /\ UNCHANGED <<ok, pos, stk, K>> /\ UEnv /\ UTree /\ UTrk /\ UDv /\ UEv

--------------------------------------------------------------------------
(* Repetition (predefined_node/repetition.rs): unit = [skip iff i > 0] element,   *)
(* the whole unit inside restore_on_none; i < MIN on failure fails; stop at MAX   *)

\* q = derivation queue on entry of the unit (its "rep" record at index vi), i = iterations done so far.
\* MAX reached ends the repetition: it succeeds iff at least MIN iterations matched.
RepFrame(e, i, vi, q) == [f |-> "rep", e |-> e, i |-> i, ph |-> "elem", vi |-> vi, ii |-> IF DvOn THEN Len(q) + 1 ELSE 0] @@ SavedV(Len(q))

RepBegin(e, i, vi, q, below, ev) ==
  IF e.max >= 0 /\ i >= e.max
  THEN /\ pc' = "ret" /\ ok' = (i >= e.min) /\ K' = below /\ dv' = (IF i >= e.min THEN q ELSE Cut(q, vi)) /\ UNCHANGED cur
       /\ evs' = EvCat(evs, ev)
  ELSE /\ dv' = DvApp(q, [k |-> "iter", i |-> i, s |-> pos, m |-> pos, e |-> pos])
       /\ evs' = EvCat(evs, ev \o <<TB(stk)>>)
       /\ IF i = 0
          THEN /\ pc' = "eval" /\ cur' = e.e /\ K' = <<RepFrame(e, i, vi, q)>> \o below /\ UNCHANGED ok
          ELSE /\ pc' = "eval" /\ cur' = SkipExpr /\ K' = <<[RepFrame(e, i, vi, q) EXCEPT !.ph = "skip"]>> \o below /\ UNCHANGED ok

RepEnter == Evaluating("rep") /\ RepBegin(cur, 0, DvIdx, DvApp(dv, [k |-> "rep", s |-> pos, e |-> pos, n |-> 0]), K, <<>>)
            /\ UNCHANGED <<pos, stk>> /\ UEnv /\ UTree /\ UTrk

RepSkipDone == Returning("rep") /\ Top.ph = "skip" /\
  /\ pc' = "eval" /\ cur' = Top.e.e /\ K' = <<[Top EXCEPT !.ph = "elem"]>> \o Below
  /\ dv' = Patch(dv, Top.ii, "m", pos)
  /\ UNCHANGED <<ok, pos, stk>> /\ UEnv /\ UTree /\ UTrk /\ UEv

\* an unbounded repetition whose iteration succeeded without changing cursor or stack repeats forever
NoProgress == pos = Top.p0 /\ stk = Top.s0

RepIterOk == Returning("rep") /\ Top.ph = "elem" /\ ok /\ ~(Top.e.max < 0 /\ NoProgress) /\
  RepBegin(Top.e, Top.i + 1, Top.vi,
           Patch(Patch(Patch(dv, Top.ii, "e", pos), Top.vi, "n", Top.i + 1), Top.vi, "e", pos), Below, <<TE(TRUE, stk)>>)
  /\ UNCHANGED <<pos, stk>> /\ UEnv /\ UTree /\ UTrk

RepDiverge == Returning("rep") /\ Top.ph = "elem" /\ ok /\ Top.e.max < 0 /\ NoProgress /\
  pc' = "diverged" /\ UNCHANGED <<cur, ok, pos, stk, K>> /\ UEnv /\ UTree /\ UTrk /\ UDv /\ UEv

\* the failed unit (skip included) is given back; fewer than MIN iterations: the repetition fails
RepIterFail == Returning("rep") /\ Top.ph = "elem" /\ ~ok /\
  Restore(IF Top.i >= Top.e.min \/ Top.vi = 0 THEN Top ELSE [Top EXCEPT !.v0 = Top.vi - 1]) /\
  PopRet(Top.i >= Top.e.min) /\ evs' = EvApp(evs, TE(FALSE, Top.s0)) /\ UNCHANGED <<cur, at, look, dep, cdep>> /\ UEnv /\ UTrk

--------------------------------------------------------------------------
(* Predicates: cursor and stack always restored, no tokens; the tracker polarity is SET *)

PredEnter == (Evaluating("pos") \/ Evaluating("neg")) /\
  /\ Enter([f |-> "pred", neg |-> cur.t = "neg", tp |-> trk.positive] @@ Saved, cur.e)
  /\ look' = look + 1
  /\ trk' = [trk EXCEPT !.positive = (cur.t = "pos")]
  /\ evs' = EvApp(evs, <<"p+", cur.t = "neg", stk>>)
  /\ UNCHANGED <<ok, pos, stk, at, dep, toks, calls, cdep, skp, log>> /\ UEnv /\ UDv

PredExit == Returning("pred") /\
  /\ pos' = Top.p0 /\ stk' = Top.s0 /\ toks' = SubSeq(toks, 1, Top.t0)
  /\ calls' = (IF Top.neg \/ ~ok THEN SubSeq(calls, 1, Top.c0) ELSE calls)
  /\ dv' = (IF Top.neg \/ ~ok THEN SubSeq(dv, 1, Top.v0) ELSE dv)
  /\ look' = look - 1
  /\ trk' = [trk EXCEPT !.positive = Top.tp]
  /\ pc' = "ret" /\ ok' = (IF Top.neg THEN ~ok ELSE ok) /\ K' = Below
  /\ evs' = EvApp(evs, <<"p-", ok, Top.s0>>)
  /\ UNCHANGED <<cur, at, dep, cdep, skp, log>> /\ UEnv

--------------------------------------------------------------------------
(* Rules (main/src/rule.rs) *)

Tracked == skp = 0

RuleEnter == pc = "eval" /\ cur.t = "call" /\ HasRule(cur.n) /\
  LET rl == RuleOf(cur.n)
      ctx == IF K # <<>> /\ Top.f = "skip" THEN "NS" ELSE at     \* called by the implicit skip?
      a1 == AtomSeen(rl, ctx)
      emit == Emits(rl, a1, look > 0)
      rec == rl.ty # "silent"
      inskip == skp > 0
  IN /\ Enter([f |-> "rule", n |-> cur.n, p0 |-> pos, a0 |-> at, d0 |-> dep, cd0 |-> cdep, emit |-> emit,
               rec |-> rec, ti |-> Len(toks) + 1, ci |-> Len(calls) + 1, nocall |-> inskip, vi |-> DvIdx], rl.expr)
     /\ dv' = DvApp(dv, [k |-> "rule", r |-> cur.n, s |-> pos, e |-> pos, sil |-> rl.ty = "silent"])
     /\ at' = AtomBody(rl, ctx)
     /\ toks' = (IF emit THEN Append(toks, Tok(cur.n, pos, pos, dep)) ELSE toks)
     /\ dep' = (IF emit THEN dep + 1 ELSE dep)
     /\ calls' = (IF inskip THEN calls
                  ELSE CallApp(calls, [r |-> cur.n, s |-> pos, e |-> pos, d |-> cdep, sil |-> rl.ty = "silent"]))
     /\ cdep' = (IF inskip THEN cdep ELSE cdep + 1)
     /\ trk' = (IF rec /\ Tracked THEN TrkPush(trk, cur.n, pos) ELSE trk)
     /\ evs' = (IF rec THEN EvApp(evs, <<"r+", cur.n, pos>>) ELSE evs)
     /\ UNCHANGED <<ok, pos, stk, look, skp, log>> /\ UEnv

RuleExit == Returning("rule") /\
  /\ PopRet(ok) /\ at' = Top.a0 /\ dep' = Top.d0 /\ cdep' = Top.cd0
  /\ toks' = (IF ~ok THEN SubSeq(toks, 1, Top.ti - 1)
              ELSE IF Top.emit THEN [toks EXCEPT ![Top.ti].e = pos] ELSE toks)
  /\ calls' = (IF Top.nocall THEN calls
               ELSE IF ~ok THEN SubSeq(calls, 1, Top.ci - 1)
               ELSE IF RecCalls THEN [calls EXCEPT ![Top.ci].e = pos] ELSE calls)
  /\ dv' = (IF ~ok THEN Cut(dv, Top.vi) ELSE Patch(dv, Top.vi, "e", pos))
  /\ trk' = (IF Top.rec /\ Tracked THEN TrkPop(trk, Top.n, Top.p0, ok) ELSE trk)
  /\ log' = (IF Top.rec THEN LogApp(log, [r |-> Top.n, at |-> Top.p0, ok |-> ok]) ELSE log)
  /\ evs' = (IF Top.rec THEN EvApp(evs, <<"r-", Top.n, Top.p0, ok>>) ELSE evs)
  /\ UNCHANGED <<cur, pos, stk, look, skp>> /\ UEnv

\* the built-in EOI is generated through rule_eoi!: a (childless) rule for the tracker and a token
EoiRule == CallOf("EOI") /\
  LET b == pos = Hi
      emit == EmitsEoi(at, look > 0) IN
  /\ pc' = "ret" /\ ok' = b
  /\ toks' = (IF b /\ emit THEN Append(toks, Tok("EOI", pos, pos, dep)) ELSE toks)
  /\ calls' = (IF b /\ skp = 0 THEN CallApp(calls, [r |-> "EOI", s |-> pos, e |-> pos, d |-> cdep, sil |-> FALSE]) ELSE calls)
  /\ trk' = (IF Tracked THEN TrkPop(TrkPush(trk, "EOI", pos), "EOI", pos, b) ELSE trk)
  /\ log' = LogApp(log, [r |-> "EOI", at |-> pos, ok |-> b])
  /\ dv' = (IF b THEN DvApp(dv, [k |-> "leaf", r |-> "EOI", s |-> pos, e |-> pos]) ELSE dv)
  /\ evs' = EvCat(evs, <<<<"r+", "EOI", pos>>, <<"r-", "EOI", pos, b>>>>)
  /\ UNCHANGED <<cur, pos, stk, K, at, look, dep, cdep, skp>> /\ UEnv

--------------------------------------------------------------------------
(* PUSH *)

PushEnter == Evaluating("push") /\ Enter([f |-> "push", p0 |-> pos, vi |-> DvIdx], cur.e)
             /\ dv' = DvApp(dv, [k |-> "push", s |-> pos, e |-> pos])
             /\ UNCHANGED <<ok, pos, stk>> /\ UEnv /\ UTree /\ UTrk /\ UEv
PushExit == Returning("push") /\ PopRet(ok) /\ stk' = (IF ok THEN Append(stk, <<Top.p0, pos>>) ELSE stk)
            /\ dv' = (IF ok THEN Patch(dv, Top.vi, "e", pos) ELSE Cut(dv, Top.vi))
            /\ evs' = (IF ok THEN EvApp(evs, <<"st", Append(stk, <<Top.p0, pos>>)>>) ELSE evs)
            /\ UNCHANGED <<cur, pos>> /\ UEnv /\ UTree /\ UTrk

--------------------------------------------------------------------------
(* Implicit skip: Skipped<'i> = AtomicRepeat<Choice2<WHITESPACE<0>, COMMENT<0>>> under a fresh tracker. *)
(* Only in non-atomic context; each iteration is an attempt.                                              *)

SkipNone == Evaluating("skip") /\ (at # "N" \/ ~(HasWS \/ HasCM)) /\
  pc' = "ret" /\ ok' = TRUE /\ UNCHANGED <<cur, pos, stk, K>> /\ UEnv /\ UTree /\ UTrk /\ UDv /\ UEv

\* Skipped<'i> = AtomicRepeat<X>: every iteration is an attempt; with both rules X = Choice2<WHITESPACE, COMMENT>,
\* whose alternatives are attempts too
SkipOpen == IF Both THEN <<TB(stk), TB(stk)>> ELSE <<TB(stk)>>
SkipTry(below) ==
  LET first == IF HasWS THEN "WHITESPACE" ELSE "COMMENT" IN
  /\ pc' = "eval" /\ cur' = [t |-> "call", n |-> first]
  /\ K' = <<[f |-> "skip", which |-> first] @@ Saved>> \o below

SkipBegin == Evaluating("skip") /\ at = "N" /\ (HasWS \/ HasCM) /\
  SkipTry(K) /\ skp' = skp + 1 /\ evs' = EvCat(evs, SkipOpen) /\ UNCHANGED <<ok, pos, stk, trk, log>> /\ UEnv /\ UTree /\ UDv

\* WHITESPACE failed: restore, try COMMENT
SkipWSFail == Returning("skip") /\ ~ok /\ Top.which = "WHITESPACE" /\ HasCM /\ Restore(Top) /\
  /\ pc' = "eval" /\ cur' = [t |-> "call", n |-> "COMMENT"] /\ K' = <<[Top EXCEPT !.which = "COMMENT"]>> \o Below
  /\ evs' = EvCat(evs, <<TE(FALSE, Top.s0), TB(Top.s0)>>)
  /\ UNCHANGED <<ok, at, look, dep, cdep>> /\ UEnv /\ UTrk

SkipIterOk == Returning("skip") /\ ok /\ ~NoProgress /\
  SkipTry(Below) /\ evs' = EvCat(evs, (IF Both THEN <<TE(TRUE, stk), TE(TRUE, stk)>> ELSE <<TE(TRUE, stk)>>) \o SkipOpen)
  /\ UNCHANGED <<ok, pos, stk>> /\ UEnv /\ UTree /\ UTrk /\ UDv

SkipDiverge == Returning("skip") /\ ok /\ NoProgress /\
  pc' = "diverged" /\ UNCHANGED <<cur, ok, pos, stk, K>> /\ UEnv /\ UTree /\ UTrk /\ UDv /\ UEv

\* last alternative failed: restore that attempt, the skip ends (it never fails).
\* Tokens of the skipped rules stay (they appear before the following element);
\* inside a predicate the enclosing PredExit drops them.
SkipEnd == Returning("skip") /\ ~ok /\ (Top.which = "COMMENT" \/ ~HasCM) /\ Restore(Top) /\
  PopRet(TRUE) /\ skp' = skp - 1 /\ evs' = EvCat(evs, (IF Both THEN <<TE(FALSE, Top.s0), TE(FALSE, Top.s0)>> ELSE <<TE(FALSE, Top.s0)>>))
  /\ UNCHANGED <<cur, at, look, dep, cdep, trk, log>> /\ UEnv

--------------------------------------------------------------------------
(* Entry points (typed_node.rs, rule.rs: parse / parse_without_ignore) *)

Report(t) == [pos |-> Off(t.pos), att |-> t.att]

\* try_parse_partial returned: collect, then continue as try_parse would
PartialDone == pc = "ret" /\ K = <<>> /\
  /\ fin' = [ok |-> ok, endc |-> pos, end |-> Off(pos), toks |-> toks, calls |-> calls, dv |-> dv,
             stk |-> stk, trk |-> Report(trk), log |-> log, evs |-> evs]
  /\ IF ~ok THEN pc' = "done" /\ UNCHANGED <<cur, K>>
     ELSE IF EntryTrails THEN pc' = "eval" /\ cur' = SkipExpr /\ K' = <<[f |-> "trail"]>>
     ELSE pc' = "eoi" /\ UNCHANGED <<cur, K>>
  /\ UNCHANGED <<ok, pos, stk, cfg>> /\ UTree /\ UTrk /\ UDv /\ UEv

TrailDone == Returning("trail") /\ pc' = "eoi" /\ K' = <<>>
             /\ UNCHANGED <<cur, ok, pos, stk>> /\ UEnv /\ UTree /\ UTrk /\ UDv /\ UEv

\* record_during_with(rule_eoi, EOI): childless rule at the current position
Finish == pc = "eoi" /\
  LET b == pos = Hi
      t2 == TrkPop(TrkPush(trk, "EOI", pos), "EOI", pos, b) IN
  /\ pc' = "done" /\ ok' = b /\ trk' = t2
  /\ log' = LogApp(log, [r |-> "EOI", at |-> pos, ok |-> b])
  /\ fin' = fin @@ [fullok |-> b, fullend |-> Off(pos), fulltrk |-> Report(t2)]
  /\ UNCHANGED <<cfg, cur, pos, stk, K, skp>> /\ UTree /\ UDv /\ UEv

\* no verdict beyond these bounds: the continuation stack (the code's call stack) or the parse stack (a zero-width iteration that
\* pushes: the state never repeats, so RepDiverge cannot see it) has outgrown anything a returning parse of the corpus reaches
Overflow == pc \notin {"done", "diverged", "overflow"} /\ (Len(K) > StackBound \/ Len(stk) > DataBound) /\ pc' = "overflow"
            /\ UNCHANGED <<cur, ok, pos, stk, K>> /\ UEnv /\ UTree /\ UTrk /\ UDv /\ UEv

--------------------------------------------------------------------------

Step ==
  \/ MatchStr \/ MatchInsens \/ MatchRange \/ CharClass \/ Soi \/ Newline \/ SkipUntil
  \/ Peek \/ PeekAll \/ Pop \/ PopAll \/ Drop \/ PeekSlice \/ UndefinedSkipRule
  \/ SeqEnter \/ SeqElemOk \/ SeqSkipDone \/ SeqFail
  \/ AltEnter \/ AltOk \/ AltFail
  \/ OptEnter \/ OptOk \/ OptFail \/ RestoreNode
  \/ RepEnter \/ RepSkipDone \/ RepIterOk \/ RepDiverge \/ RepIterFail
  \/ PredEnter \/ PredExit
  \/ RuleEnter \/ RuleExit \/ EoiRule
  \/ PushEnter \/ PushExit
  \/ SkipNone \/ SkipBegin \/ SkipWSFail \/ SkipIterOk \/ SkipDiverge \/ SkipEnd
  \/ PartialDone \/ TrailDone \/ Finish

MNext == (Len(K) <= StackBound /\ Len(stk) <= DataBound /\ Step) \/ Overflow

\* initial machine state for a loaded configuration
MInit ==
  /\ pc = "eval" /\ cur = [t |-> "call", n |-> cfg.rule] /\ ok = TRUE
  /\ pos = Lo /\ stk = <<>> /\ K = <<>> /\ at = "N" /\ look = 0 /\ dep = 0
  /\ toks = <<>> /\ calls = <<>> /\ cdep = 0 /\ trk = EmptyTrk(Lo) /\ skp = 0 /\ dv = <<>> /\ log = <<>> /\ evs = <<>>
  /\ fin = [ok |-> FALSE]

Halted == pc \in {"done", "diverged", "overflow"}
=============================================================================
