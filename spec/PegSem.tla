------------------------------- MODULE PegSem -------------------------------
(***************************************************************************)
(* Reference denotation: PEG semantics with full backtracking.              *)
(*                                                                          *)
(* Sem(e, p, s, a, look, d) = [ok, p, s, t] by recursive operators over an  *)
(* IMMUTABLE stack value s, so that a failed attempt returns its argument   *)
(* state untouched by construction. `a` is pest's three-valued atomicity,   *)
(* `look` = inside a predicate, `d` = token depth, `t` = pest's token list  *)
(* (pre-order, [r, s, e, d]).  Empty-stack PEEK/POP/DROP and out-of-range   *)
(* slices fail.  This is what "the parser pest itself generates" computes    *)
(* wherever pest is defined (validated against pest by `check --validate-   *)
(* spec`) and what C01 demands where pest is not.                           *)
(***************************************************************************)
EXTENDS PegGrammar

Res(b, p, s, t) == [ok |-> b, p |-> p, s |-> s, t |-> t]
Tok(r, s, e, d) == [r |-> r, s |-> s, e |-> e, d |-> d]

RECURSIVE Sem(_, _, _, _, _, _), SemSeq(_, _, _, _, _, _, _, _), SemAlt(_, _, _, _, _, _, _),
          SemRep(_, _, _, _, _, _, _, _), SemSkip(_, _, _, _, _), SemSkipLoop(_, _, _, _),
          SemCall(_, _, _, _, _, _)

\* (WHITESPACE | COMMENT)* , each tried with the atomicity of the context ("N": skips only run there)
SemSkipLoop(p, s, d, acc) ==
  LET w == IF HasWS THEN SemCall("WHITESPACE", p, s, "NS", FALSE, d) ELSE Res(FALSE, p, s, <<>>)
      c == IF ~w.ok /\ HasCM THEN SemCall("COMMENT", p, s, "NS", FALSE, d) ELSE Res(FALSE, p, s, <<>>)
      r == IF w.ok THEN w ELSE c
  IN IF r.ok /\ (r.p > p \/ r.s # s) THEN SemSkipLoop(r.p, r.s, d, acc \o r.t)
     ELSE Res(TRUE, p, s, acc)

SemSkip(p, s, a, look, d) ==
  IF a # "N" \/ ~(HasWS \/ HasCM) THEN Res(TRUE, p, s, <<>>)
  ELSE LET k == SemSkipLoop(p, s, d, <<>>) IN Res(TRUE, k.p, k.s, IF look THEN <<>> ELSE k.t)

SemSeq(xs, i, p, s, a, look, d, acc) ==
  LET r == Sem(xs[i], p, s, a, look, d) IN
  IF ~r.ok THEN Res(FALSE, p, s, <<>>)
  ELSE IF i = Len(xs) THEN Res(TRUE, r.p, r.s, acc \o r.t)
  ELSE LET k == SemSkip(r.p, r.s, a, look, d)
       IN SemSeq(xs, i + 1, k.p, k.s, a, look, d, acc \o r.t \o k.t)

SemAlt(xs, i, p, s, a, look, d) ==
  LET r == Sem(xs[i], p, s, a, look, d) IN
  IF r.ok THEN r ELSE IF i = Len(xs) THEN Res(FALSE, p, s, <<>>) ELSE SemAlt(xs, i + 1, p, s, a, look, d)

\* e{min,max}: skip before every iteration but the first; a skip followed by a failed
\* iteration is given back; fewer than min iterations fail; stop at max
SemRep(e, i, p, s, a, look, d, acc) ==
  IF e.max >= 0 /\ i >= e.max THEN (IF i >= e.min THEN Res(TRUE, p, s, acc) ELSE Res(FALSE, p, s, <<>>))
  ELSE
  LET k == IF i = 0 THEN Res(TRUE, p, s, <<>>) ELSE SemSkip(p, s, a, look, d)
      r == Sem(e.e, k.p, k.s, a, look, d) IN
  IF r.ok THEN SemRep(e, i + 1, r.p, r.s, a, look, d, acc \o k.t \o r.t)
  ELSE IF i < e.min THEN Res(FALSE, p, s, <<>>)
  ELSE Res(TRUE, p, s, acc)

SemCall(n, p, s, a, look, d) ==
  IF HasRule(n) THEN
    LET rl == RuleOf(n)
        a1 == AtomSeen(rl, a)
        emit == Emits(rl, a1, look)
        a2 == AtomBody(rl, a)
        r == Sem(rl.expr, p, s, a2, look, IF emit THEN d + 1 ELSE d)
    IN IF ~r.ok THEN Res(FALSE, p, s, <<>>)
       ELSE Res(TRUE, r.p, r.s, IF emit THEN <<Tok(n, p, r.p, d)>> \o r.t ELSE r.t)
  ELSE CASE n = "ANY" -> IF p < Hi THEN Res(TRUE, p + 1, s, <<>>) ELSE Res(FALSE, p, s, <<>>)
    [] n = "SOI" -> Res(p = Lo, p, s, <<>>)
    [] n = "EOI" -> IF p = Hi THEN Res(TRUE, p, s, IF EmitsEoi(a, look) THEN <<Tok("EOI", p, p, d)>> ELSE <<>>)
                    ELSE Res(FALSE, p, s, <<>>)
    [] n = "NEWLINE" -> IF PrefixAt(<<13, 10>>, p) THEN Res(TRUE, p + 2, s, <<>>)
                        ELSE IF PrefixAt(<<10>>, p) \/ PrefixAt(<<13>>, p) THEN Res(TRUE, p + 1, s, <<>>)
                        ELSE Res(FALSE, p, s, <<>>)
    [] n = "PEEK" -> IF s = <<>> THEN Res(FALSE, p, s, <<>>)
                     ELSE LET q == MatchAll(<<s[Len(s)]>>, 1, p) IN
                          IF q >= 0 THEN Res(TRUE, q, s, <<>>) ELSE Res(FALSE, p, s, <<>>)
    [] n = "POP" -> IF s = <<>> THEN Res(FALSE, p, s, <<>>)
                    ELSE LET q == MatchAll(<<s[Len(s)]>>, 1, p) IN
                         IF q >= 0 THEN Res(TRUE, q, SubSeq(s, 1, Len(s) - 1), <<>>) ELSE Res(FALSE, p, s, <<>>)
    [] n = "DROP" -> IF s = <<>> THEN Res(FALSE, p, s, <<>>) ELSE Res(TRUE, p, SubSeq(s, 1, Len(s) - 1), <<>>)
    [] n = "PEEK_ALL" -> LET q == MatchAll(Rev(s), 1, p) IN
                         IF q >= 0 THEN Res(TRUE, q, s, <<>>) ELSE Res(FALSE, p, s, <<>>)
    [] n = "POP_ALL" -> LET q == MatchAll(Rev(s), 1, p) IN
                        IF q >= 0 THEN Res(TRUE, q, <<>>, <<>>) ELSE Res(FALSE, p, s, <<>>)
    [] IsClass(n) -> IF p < Hi /\ InClass(n, Full[p + 1]) THEN Res(TRUE, p + 1, s, <<>>) ELSE Res(FALSE, p, s, <<>>)
    [] OTHER -> Res(FALSE, p, s, <<>>)     \* WHITESPACE / COMMENT referenced but not defined: always fails

Sem(e, p, s, a, look, d) ==
  CASE e.t = "str" -> IF PrefixAt(e.s, p) THEN Res(TRUE, p + Len(e.s), s, <<>>) ELSE Res(FALSE, p, s, <<>>)
    [] e.t = "insens" -> IF PrefixAtI(e.s, p) THEN Res(TRUE, p + Len(e.s), s, <<>>) ELSE Res(FALSE, p, s, <<>>)
    [] e.t = "range" -> IF p < Hi /\ e.lo <= Full[p + 1] /\ Full[p + 1] <= e.hi
                        THEN Res(TRUE, p + 1, s, <<>>) ELSE Res(FALSE, p, s, <<>>)
    [] e.t = "call" -> SemCall(e.n, p, s, a, look, d)
    [] e.t = "seq" -> SemSeq(e.xs, 1, p, s, a, look, d, <<>>)
    [] e.t = "alt" -> SemAlt(e.xs, 1, p, s, a, look, d)
    [] e.t = "opt" -> LET r == Sem(e.e, p, s, a, look, d) IN IF r.ok THEN r ELSE Res(TRUE, p, s, <<>>)
    [] e.t = "rep" -> SemRep(e, 0, p, s, a, look, d, <<>>)
    [] e.t = "pos" -> LET r == Sem(e.e, p, s, a, TRUE, d) IN Res(r.ok, p, s, <<>>)
    [] e.t = "neg" -> LET r == Sem(e.e, p, s, a, TRUE, d) IN Res(~r.ok, p, s, <<>>)
    [] e.t = "push" -> LET r == Sem(e.e, p, s, a, look, d) IN
                       IF r.ok THEN Res(TRUE, r.p, Append(r.s, <<p, r.p>>), r.t) ELSE Res(FALSE, p, s, <<>>)
    [] e.t = "restore" -> Sem(e.e, p, s, a, look, d)
    [] e.t = "skipuntil" -> Res(TRUE, Until(e.ns, p), s, <<>>)
    [] e.t = "peekslice" ->
         LET sl == SliceOf(e, s) IN
         IF ~sl[1] THEN Res(FALSE, p, s, <<>>)
         ELSE LET q == MatchAll(sl[2], 1, p) IN IF q >= 0 THEN Res(TRUE, q, s, <<>>) ELSE Res(FALSE, p, s, <<>>)

\* Entry point: the rule cfg.rule applied to the (sub-)input from its start, non-atomic context
SemEntry == SemCall(cfg.rule, Lo, <<>>, "N", FALSE, 0)

\* Full parse: prefix, then (WHITESPACE | COMMENT)* unless the entry rule is atomic / compound, then end of input
\* rules::EOI as an entry point (rule_eoi!) is matched without the trailing skip, like an atomic rule
EntryTrails == cfg.rule # "EOI" /\ LET ty == RuleOf(cfg.rule).ty IN ty # "atomic" /\ ty # "compound"
SemFull ==
  LET r == SemEntry IN
  IF ~r.ok THEN [ok |-> FALSE, p |-> r.p, t |-> <<>>]
  ELSE LET k == IF EntryTrails THEN SemSkip(r.p, r.s, "N", TRUE, 0) ELSE Res(TRUE, r.p, r.s, <<>>)
       IN [ok |-> k.p = Hi, p |-> k.p, t |-> r.t]

\* pest-typed's Pair tree: pest's tokens minus the descendants of atomic / compound tokens
IsPruner(n) == HasRule(n) /\ RuleOf(n).ty \in {"atomic", "compound"}
RECURSIVE PruneFrom(_, _, _)
\* cut = depth of the innermost open atomic/compound token (or -1)
PruneFrom(t, i, cut) ==
  IF i > Len(t) THEN <<>>
  ELSE LET x == t[i]
           c2 == IF cut >= 0 /\ x.d <= cut THEN -1 ELSE cut
       IN IF c2 >= 0 THEN PruneFrom(t, i + 1, c2)
          ELSE <<x>> \o PruneFrom(t, i + 1, IF IsPruner(x.r) THEN x.d ELSE -1)
Prune(t) == PruneFrom(t, 1, -1)
=============================================================================
