SPECIFICATION Spec
INVARIANT ByValueIsIdeal
INVARIANT Emit
CHECK_DEADLOCK FALSE
