------------------------------ MODULE PegStack ------------------------------
(***************************************************************************)
(* The parse stack as an abstract data type, three ways:                    *)
(*   Ideal     - a snapshot is a copy; restore puts the copy back.          *)
(*   Pest2714  - the cache / popped / lengths algorithm of pest::Stack       *)
(*               2.7.14 (the pinned dependency), transcribed.               *)
(*   ByValue   - what pest-typed does since fix f13cd62: save the content    *)
(*               before an attempt, rebuild it by pop-all / push-all.        *)
(* TLC runs every sequence of operations up to MaxOps over two values.       *)
(* ByValueIsIdeal is an invariant.  Pest2714IsIdeal is NOT: TLC finds        *)
(*   snapshot; snapshot; pop; clear_snapshot; restore                        *)
(* (the element popped under the inner snapshot is lost) - the design-level  *)
(* explanation of the C05 defect that reached pest-typed through             *)
(* restore_on_none, and of why the machine (PegMachine) is stated over the   *)
(* ideal stack.                                                              *)
(***************************************************************************)
EXTENDS Integers, Sequences, TLC, IOUtils, Json

MaxOps == IF "VERIF_MAXOPS" \in DOMAIN IOEnv THEN atoi(IOEnv.VERIF_MAXOPS) ELSE 7
Vals == {1, 2}

VARIABLES n,            \* operations so far
          ideal, snaps, \* Ideal: content, stack of saved copies
          cache, popped, lengths,   \* Pest2714
          bv, bsaved,   \* ByValue: content (a plain pest::Stack without snapshots), stack of saved copies
          ops           \* history of operations (for replay on the real restore_on_none)
vars == <<n, ideal, snaps, cache, popped, lengths, bv, bsaved, ops>>

Init == n = 0 /\ ideal = <<>> /\ snaps = <<>> /\ cache = <<>> /\ popped = <<>> /\ lengths = <<>> /\ bv = <<>> /\ bsaved = <<>> /\ ops = <<>>

Front(s) == SubSeq(s, 1, Len(s) - 1)
Last(s) == s[Len(s)]
Rev(s) == [i \in 1..Len(s) |-> s[Len(s) + 1 - i]]

Push(v) == /\ ideal' = Append(ideal, v) /\ cache' = Append(cache, v) /\ bv' = Append(bv, v)
           /\ UNCHANGED <<snaps, popped, lengths, bsaved>>

\* pest 2.7.14: a pop is remembered only by the innermost snapshot, and only if it eats into that snapshot's remainder
Pop == /\ ideal # <<>>
       /\ ideal' = Front(ideal) /\ bv' = Front(bv)
       /\ cache' = (IF cache = <<>> THEN cache ELSE Front(cache))      \* (once it has diverged from the ideal stack it may be empty)
       /\ IF cache # <<>> /\ lengths # <<>> /\ Len(cache) = Last(lengths)[2]
          THEN lengths' = [lengths EXCEPT ![Len(lengths)] = <<@[1], @[2] - 1>>] /\ popped' = Append(popped, Last(cache))
          ELSE UNCHANGED <<lengths, popped>>
       /\ UNCHANGED <<snaps, bsaved>>

Snapshot == /\ snaps' = Append(snaps, ideal) /\ lengths' = Append(lengths, <<Len(cache), Len(cache)>>) /\ bsaved' = Append(bsaved, bv)
            /\ UNCHANGED <<ideal, cache, popped, bv>>

\* the attempt succeeded: forget the snapshot
Clear == /\ snaps # <<>>
         /\ snaps' = Front(snaps) /\ bsaved' = Front(bsaved)
         /\ LET len == Last(lengths)[1]
                rem == Last(lengths)[2]
            IN popped' = SubSeq(popped, 1, Len(popped) - (len - rem))
         /\ lengths' = Front(lengths)
         /\ UNCHANGED <<ideal, cache, bv>>

\* the attempt failed: go back to the snapshot
Restore == /\ snaps # <<>>
           /\ ideal' = Last(snaps) /\ snaps' = Front(snaps)
           /\ bv' = Last(bsaved) /\ bsaved' = Front(bsaved)          \* pop everything, push the saved copy
           /\ LET len == Last(lengths)[1]
                  rem == Last(lengths)[2]
                  kept == IF rem < Len(cache) THEN SubSeq(cache, 1, rem) ELSE cache
                  k == len - rem
              IN IF k > 0
                 THEN /\ cache' = kept \o Rev(SubSeq(popped, Len(popped) - k + 1, Len(popped)))
                      /\ popped' = SubSeq(popped, 1, Len(popped) - k)
                 ELSE cache' = kept /\ UNCHANGED popped
           /\ lengths' = Front(lengths)

Next == /\ n < MaxOps /\ n' = n + 1
        /\ \/ \E v \in Vals : Push(v) /\ ops' = Append(ops, <<"push", v>>)
           \/ Pop /\ ops' = Append(ops, <<"pop", 0>>)
           \/ Snapshot /\ ops' = Append(ops, <<"snap", 0>>)
           \/ Clear /\ ops' = Append(ops, <<"clear", 0>>)
           \/ Restore /\ ops' = Append(ops, <<"restore", 0>>)
Spec == Init /\ [][Next]_vars

ByValueIsIdeal == bv = ideal
Pest2714IsIdeal == cache = ideal
Emit == PrintT(<<"B", ToJson([ops |-> ops, content |-> ideal, open |-> Len(snaps)])>>)
=============================================================================
