SPECIFICATION Spec
INVARIANT Pest2714IsIdeal
CHECK_DEADLOCK FALSE
