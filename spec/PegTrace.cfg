SPECIFICATION TSpec
INVARIANT TypeOK2
CONSTRAINT Progress
POSTCONDITION Accepted
CHECK_DEADLOCK FALSE
