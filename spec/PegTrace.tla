------------------------------ MODULE PegTrace ------------------------------
(***************************************************************************)
(* Direction (B): traces recorded from the real code are validated against  *)
(* the machine.  One record per entry-point call:                            *)
(*   [g, rule, full, lo, hi, ok, end, toks, fullok (, ev)]                   *)
(* `ev` (optional) is the event sequence emitted by the hooks compiled in    *)
(* with --cfg pest_typed_verif.  The machine's own actions are silent steps  *)
(* between loading a record and accepting it; a record is accepted only if   *)
(* the run that the specification allows for its arguments ends in exactly   *)
(* the recorded result (and emitted exactly the recorded events).            *)
(* Acceptance = every record consumed (POSTCONDITION on a TLCSet register).  *)
(***************************************************************************)
EXTENDS PegMachine

Rec == ndJsonDeserialize(IOEnv.VERIF_TRACE)
Ast == IF "VERIF_AST" \in DOMAIN IOEnv THEN IOEnv.VERIF_AST ELSE "opt"

VARIABLE l
tvars == <<vars, l>>

CfgOf(r) == [g |-> r.g, rule |-> r.rule, full |-> r.full, lo |-> r.lo, hi |-> r.hi, ast |-> Ast, dev |-> {}]

TInit == l = 1 /\ cfg = CfgOf(Rec[1]) /\ MInit

TStep == l <= Len(Rec) /\ ~Halted /\ MNext /\ UNCHANGED <<cfg, l>>

ByteToksT(t) == [i \in 1..Len(t) |-> <<t[i].r, Off(t[i].s), Off(t[i].e), t[i].d>>]
ByteStkT(s) == [i \in 1..Len(s) |-> <<Off(s[i][1]), Off(s[i][2])>>]
EvBT(e) == CASE e[1] = "r+" -> <<"r+", e[2], Off(e[3])>>
             [] e[1] = "r-" -> <<"r-", e[2], Off(e[3]), e[4]>>
             [] e[1] = "t+" -> <<"t+", ByteStkT(e[2])>>
             [] e[1] = "t-" -> <<"t-", e[2], ByteStkT(e[3])>>
             [] e[1] = "p+" -> <<"p+", e[2], ByteStkT(e[3])>>
             [] e[1] = "p-" -> <<"p-", e[2], ByteStkT(e[3])>>
             [] OTHER -> <<e[1], ByteStkT(e[2])>>
FullOk == IF "fullok" \in DOMAIN fin THEN fin.fullok ELSE FALSE

Matches(r) ==
  /\ pc = "done"
  /\ fin.ok = r.ok
  /\ r.ok => (fin.end = r.end /\ ByteToksT(Prune(fin.toks)) = r.toks /\ ByteStkT(fin.stk) = r.stk)
  /\ FullOk = r.fullok
  /\ ("ev" \in DOMAIN r) => [i \in 1..Len(fin.evs) |-> EvBT(fin.evs[i])] = r.ev

\* accept the record and load the next one (fresh stack, fresh tracker)
TAccept ==
  /\ l <= Len(Rec) /\ Matches(Rec[l]) /\ l' = l + 1
  /\ IF l + 1 <= Len(Rec)
     THEN LET r == Rec[l + 1] IN
          /\ cfg' = CfgOf(r)
          /\ pc' = "eval" /\ cur' = [t |-> "call", n |-> r.rule] /\ ok' = TRUE
          /\ pos' = r.lo /\ stk' = <<>> /\ K' = <<>> /\ at' = "N" /\ look' = 0 /\ dep' = 0
          /\ toks' = <<>> /\ calls' = <<>> /\ cdep' = 0 /\ trk' = EmptyTrk(r.lo) /\ skp' = 0 /\ dv' = <<>> /\ log' = <<>> /\ evs' = <<>>
          /\ fin' = [ok |-> FALSE]
     ELSE UNCHANGED vars

TNext == TStep \/ TAccept
TSpec == TInit /\ [][TNext]_tvars

TypeOK2 == pos \in Lo..Hi /\ at \in {"N", "C", "A"} /\ \A i \in 1..Len(stk) : Lo <= stk[i][1] /\ stk[i][2] <= Hi
Progress == TLCSet(1, l)
Accepted == \/ TLCGet(1) = Len(Rec) + 1
            \/ PrintT(<<"REJECTED", TLCGet(1)>>) /\ FALSE
=============================================================================
