SPECIFICATION Spec
INVARIANT Consistent
INVARIANT Emit
CHECK_DEADLOCK FALSE
