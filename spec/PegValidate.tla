----------------------------- MODULE PegValidate -----------------------------
(***************************************************************************)
(* C11(i): which grammars must be refused at generation time.               *)
(* The rules of pest's validator (validate_ast: repetition, choices,        *)
(* WHITESPACE/COMMENT, left recursion), transcribed over the source AST.     *)
(* TLC evaluates the verdict for every grammar of the `ill` corpus (one      *)
(* state each); pest_meta's own verdict is the witness of this module, and   *)
(* the generator of pest-typed must panic exactly on the rejected ones.      *)
(* WellFounded is the (stronger) condition under which every parse returns.  *)
(***************************************************************************)
EXTENDS Integers, Sequences, FiniteSets, TLC, Json, IOUtils

Corpus == JsonDeserialize(IOEnv.VERIF_CORPUS)
Gs == Corpus.grammars
VARIABLE g
Init == g \in 1..Len(Gs)
Next == UNCHANGED g
Spec == Init /\ [][Next]_g

Rules == Gs[g].rules
HasRule(n) == \E i \in 1..Len(Rules) : Rules[i].name = n
RuleOf(n) == Rules[CHOOSE i \in 1..Len(Rules) : Rules[i].name = n]
In(n, tr) == \E i \in 1..Len(tr) : tr[i] = n

RECURSIVE NF(_, _), NP(_, _), AllNF(_, _, _), AnyNF(_, _, _), AllNP(_, _, _), AnyNP(_, _, _)
\* is_non_failing
NF(e, tr) ==
  CASE e.t = "str" -> e.s = <<>>
    [] e.t = "insens" -> e.s = <<>>
    [] e.t = "call" -> IF ~In(e.n, tr) /\ HasRule(e.n) THEN NF(RuleOf(e.n).expr, Append(tr, e.n)) ELSE FALSE
    [] e.t = "opt" -> TRUE
    [] e.t = "rep" -> e.min = 0 \/ NF(e.e, tr)
    [] e.t = "seq" -> AllNF(e.xs, 1, tr)
    [] e.t = "alt" -> AnyNF(e.xs, 1, tr)
    [] e.t = "push" -> NF(e.e, tr)
    [] e.t = "pos" -> NF(e.e, tr)
    [] OTHER -> FALSE                      \* range, peekslice, neg
AllNF(xs, i, tr) == i > Len(xs) \/ (NF(xs[i], tr) /\ AllNF(xs, i + 1, tr))
AnyNF(xs, i, tr) == i <= Len(xs) /\ (NF(xs[i], tr) \/ AnyNF(xs, i + 1, tr))
\* is_non_progressing
NP(e, tr) ==
  CASE e.t = "str" -> e.s = <<>>
    [] e.t = "insens" -> e.s = <<>>
    [] e.t = "call" -> IF e.n = "SOI" \/ e.n = "EOI" THEN TRUE
                       ELSE IF ~In(e.n, tr) /\ HasRule(e.n) THEN NP(RuleOf(e.n).expr, Append(tr, e.n)) ELSE FALSE
    [] e.t = "seq" -> AllNP(e.xs, 1, tr)
    [] e.t = "alt" -> AnyNP(e.xs, 1, tr)
    [] e.t = "pos" -> TRUE
    [] e.t = "neg" -> TRUE
    [] e.t = "opt" -> TRUE
    [] e.t = "rep" -> e.min = 0 \/ NP(e.e, tr)
    [] e.t = "push" -> NP(e.e, tr)
    [] OTHER -> FALSE                      \* range, peekslice
AllNP(xs, i, tr) == i > Len(xs) \/ (NP(xs[i], tr) /\ AllNP(xs, i + 1, tr))
AnyNP(xs, i, tr) == i <= Len(xs) /\ (NP(xs[i], tr) \/ AnyNP(xs, i + 1, tr))

\* all sub-expressions (top-down)
RECURSIVE Subs(_), SubsAll(_, _)
Subs(e) == <<e>> \o (CASE e.t \in {"seq", "alt"} -> SubsAll(e.xs, 1)
                      [] e.t \in {"opt", "rep", "pos", "neg", "push"} -> Subs(e.e)
                      [] OTHER -> <<>>)
SubsAll(xs, i) == IF i > Len(xs) THEN <<>> ELSE Subs(xs[i]) \o SubsAll(xs, i + 1)

BadRepetition(r) == \E i \in 1..Len(Subs(r.expr)) : LET e == Subs(r.expr)[i] IN
  e.t = "rep" /\ e.k \in {"rep", "reponce", "repmin"} /\ (NF(e.e, <<>>) \/ NP(e.e, <<>>))
BadChoice(r) == \E i \in 1..Len(Subs(r.expr)) : LET e == Subs(r.expr)[i] IN
  e.t = "alt" /\ \E k \in 1..(Len(e.xs) - 1) : NF(e.xs[k], <<>>)
BadSkipRule(r) == r.name \in {"WHITESPACE", "COMMENT"} /\ (NF(r.expr, <<>>) \/ NP(r.expr, <<>>))

RECURSIVE LR(_, _), LRSeq(_, _, _), LRAny(_, _, _)
LR(e, tr) ==
  CASE e.t = "call" -> IF tr[1] = e.n THEN TRUE
                       ELSE IF ~In(e.n, tr) /\ HasRule(e.n) THEN LR(RuleOf(e.n).expr, Append(tr, e.n)) ELSE FALSE
    [] e.t = "seq" -> LRSeq(e.xs, 1, tr)
    [] e.t = "alt" -> LRAny(e.xs, 1, tr)
    [] e.t = "rep" -> e.k \in {"rep", "reponce"} /\ LR(e.e, tr)
    [] e.t \in {"opt", "pos", "neg", "push"} -> LR(e.e, tr)
    [] OTHER -> FALSE
LRSeq(xs, i, tr) == IF i = Len(xs) THEN LR(xs[i], tr)
                    ELSE IF NF(xs[i], <<tr[Len(tr)]>>) THEN LRSeq(xs, i + 1, tr) ELSE LR(xs[i], tr)
LRAny(xs, i, tr) == i <= Len(xs) /\ (LR(xs[i], tr) \/ LRAny(xs, i + 1, tr))
LeftRecursive(r) == LR(r.expr, <<r.name>>)

Reasons(r) == (IF BadRepetition(r) THEN {"repetition"} ELSE {}) \cup (IF BadChoice(r) THEN {"choice"} ELSE {})
              \cup (IF BadSkipRule(r) THEN {"skiprule"} ELSE {}) \cup (IF LeftRecursive(r) THEN {"leftrec"} ELSE {})
Rejected == \E i \in 1..Len(Rules) : Reasons(Rules[i]) # {}

\* Well-founded (sufficient for termination): accepted, and the call graph is acyclic
RECURSIVE Reach(_, _)
Calls(e) == {Subs(e)[i].n : i \in {j \in 1..Len(Subs(e)) : Subs(e)[j].t = "call"}}
Reach(S, k) == IF k = 0 THEN S ELSE Reach(S \cup UNION {IF HasRule(n) THEN Calls(RuleOf(n).expr) ELSE {} : n \in S}, k - 1)
Cyclic == \E i \in 1..Len(Rules) : Rules[i].name \in Reach(Calls(Rules[i].expr), Len(Rules))
\* the validator's documented gap: stack built-ins may match without consuming (empty stack, empty entries,
\* empty slice), so an unbounded repetition over them may repeat forever although pest accepts it
RECURSIVE MayStall(_, _), AllStall(_, _, _), AnyStall(_, _, _)
MayStall(e, tr) ==
  CASE e.t \in {"str", "insens"} -> e.s = <<>>
    [] e.t = "call" -> IF e.n \in {"SOI", "EOI", "PEEK", "POP", "DROP", "PEEK_ALL", "POP_ALL"} THEN TRUE
                       ELSE IF ~In(e.n, tr) /\ HasRule(e.n) THEN MayStall(RuleOf(e.n).expr, Append(tr, e.n)) ELSE FALSE
    [] e.t = "peekslice" -> TRUE
    [] e.t = "seq" -> AllStall(e.xs, 1, tr)
    [] e.t = "alt" -> AnyStall(e.xs, 1, tr)
    [] e.t \in {"pos", "neg", "opt"} -> TRUE
    [] e.t = "rep" -> e.min = 0 \/ MayStall(e.e, tr)
    [] e.t = "push" -> MayStall(e.e, tr)
    [] OTHER -> FALSE
AllStall(xs, i, tr) == i > Len(xs) \/ (MayStall(xs[i], tr) /\ AllStall(xs, i + 1, tr))
AnyStall(xs, i, tr) == i <= Len(xs) /\ (MayStall(xs[i], tr) \/ AnyStall(xs, i + 1, tr))
StallingRepetition == \E i \in 1..Len(Rules) : \E k \in 1..Len(Subs(Rules[i].expr)) :
  LET e == Subs(Rules[i].expr)[k] IN e.t = "rep" /\ e.max < 0 /\ MayStall(e.e, <<>>)
StallingSkipRule == \E i \in 1..Len(Rules) : Rules[i].name \in {"WHITESPACE", "COMMENT"} /\ MayStall(Rules[i].expr, <<>>)
WellFounded == ~Rejected /\ ~Cyclic /\ ~StallingRepetition /\ ~StallingSkipRule

\* sanity of the transcription itself: a rejected grammar is never well-founded; reasons are reported per rule
Consistent == Rejected => ~WellFounded
Rec == [id |-> Gs[g].id, rejected |-> Rejected, wellfounded |-> WellFounded,
        reasons |-> [i \in 1..Len(Rules) |-> [r |-> Rules[i].name, why |-> Reasons(Rules[i])]]]
Emit == PrintT(<<"B", ToJson(Rec)>>)
=============================================================================
