SPECIFICATION Spec
INVARIANT FirstAndLastHoldTheSpan
INVARIANT Emit
CHECK_DEADLOCK FALSE
