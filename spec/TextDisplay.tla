----------------------------- MODULE TextDisplay -----------------------------
(***************************************************************************)
(* C14: layout of the snippet Display prints for a Span or a Position.      *)
(* Same string-growing machine; for every string and every span / position  *)
(* the specification says which input lines are numbered (with their text,   *)
(* control characters pictured), and where the marker rows point, in display *)
(* cells.  Lines are the LF-terminated lines of the whole input; an empty    *)
(* input has one empty line.                                                 *)
(***************************************************************************)
EXTENDS Integers, Sequences, FiniteSets, TLC, Json, IOUtils, SequencesExt

LF == 10
Alphabet == {LF, 13, 9, 97, 20013, 233}     \* LF, CR, TAB, ASCII letter, wide CJK character, 2-byte letter
MaxLen == IF "VERIF_MAXLEN" \in DOMAIN IOEnv THEN atoi(IOEnv.VERIF_MAXLEN) ELSE 4
Dev(x) == "VERIF_DEV" \in DOMAIN IOEnv /\ IOEnv.VERIF_DEV = x

VARIABLE s
Extra == IF "VERIF_EXTRA" \in DOMAIN IOEnv /\ IOEnv.VERIF_EXTRA # "" THEN JsonDeserialize(IOEnv.VERIF_EXTRA) ELSE <<>>
Init == s = <<>> \/ \E i \in 1..Len(Extra) : s = Extra[i]
Next == \E c \in Alphabet : Len(s) < MaxLen /\ s' = Append(s, c)
Spec == Init /\ [][Next]_s

N == Len(s)
W(c) == IF c < 128 THEN 1 ELSE IF c < 2048 THEN 2 ELSE IF c < 65536 THEN 3 ELSE 4
RECURSIVE Bytes(_)
Bytes(p) == IF p = 0 THEN 0 ELSE W(s[p]) + Bytes(p - 1)

\* control pictures and display cells (unicode-width, CJK flavour: checked by the runner at start)
\* every C0 control character and DEL is shown as its picture (U+2400 + c, U+2421 for DEL); the space is kept
Picture(c) == IF c < 32 THEN 9216 + c ELSE IF c = 127 THEN 9249 ELSE c
Cell(c) == IF c = 20013 THEN 2 ELSE 1
RECURSIVE Cells(_, _)
Cells(i, j) == IF j <= i THEN 0 ELSE Cell(s[j]) + Cells(i, j - 1)     \* cells of characters i+1 .. j
Pict(i, j) == [k \in 1..(j - i) |-> Picture(s[i + k])]

LineEnd(p) == IF \E i \in (p + 1)..N : s[i] = LF
              THEN CHOOSE i \in (p + 1)..N : s[i] = LF /\ \A j \in (p + 1)..(i - 1) : s[j] # LF ELSE N
RECURSIVE LinesFrom(_)
LinesFrom(p) == IF p >= N THEN <<>> ELSE <<<<p, LineEnd(p)>>>> \o LinesFrom(LineEnd(p))
L == IF N = 0 THEN <<<<0, 0>>>> ELSE LinesFrom(0)
NL == Len(L)

\* line holding the character at index c (0-based), line holding an offset (the last line at end of input)
LineOfChar(c) == CHOOSE i \in 1..NL : L[i][1] <= c /\ c < L[i][2]
LineOfOffset(p) == IF p >= N THEN NL ELSE LineOfChar(p)
\* named deviation (known finding, pinned by an existing snapshot test): the start of a span is looked up
\* with a non-strict comparison, so an offset at a line start is attributed to the previous line
FirstLine(a, b) == IF Dev("display_prev_line") THEN CHOOSE i \in 1..NL : L[i][2] >= a /\ \A j \in 1..(i - 1) : L[j][2] < a
                   ELSE IF a < b THEN LineOfChar(a) ELSE LineOfOffset(a)
LastLine(a, b) == IF a < b THEN LineOfChar(b - 1)
                  ELSE IF Dev("display_prev_line") THEN FirstLine(a, b) ELSE LineOfOffset(a)

Num(i) == <<i, Pict(L[i][1], L[i][2])>>
Sat(x) == IF x < 0 THEN 0 ELSE x
SpanLayout(a, b) ==
  LET f == FirstLine(a, b)
      l == LastLine(a, b)
      cnt == l - f + 1
  IN IF f = l
     THEN [nums |-> <<Num(f)>>, dots |-> FALSE,
           marks |-> <<<<IF a < b THEN "^" ELSE "", Cells(L[f][1], a), Cells(a, b)>>>>,
           hl |-> <<Pict(a, b)>>]
     ELSE LET inner == (IF cnt >= 3 THEN <<Num(f + 1)>> ELSE <<>>) \o (IF cnt = 5 THEN <<Num(f + 2)>> ELSE <<>>)
                       \o (IF cnt >= 4 THEN <<Num(l - 1)>> ELSE <<>>) IN
          [nums |-> <<Num(f)>> \o inner \o <<Num(l)>>,
           dots |-> cnt >= 6,
           marks |-> <<<<"v", Cells(L[f][1], a), 1>>, <<"^", Sat(Cells(L[l][1], b) - 1), 1>>>>,
           \* what a custom span formatter is handed, one piece per numbered line: the part of the span on that line
           hl |-> <<Pict(a, L[f][2])>> \o [k \in 1..Len(inner) |-> inner[k][2]] \o <<Pict(L[l][1], b)>>]
PosLayout(p) == LET i == LineOfOffset(p) IN
  [nums |-> <<Num(i)>>, dots |-> FALSE, marks |-> <<<<"^", Cells(L[i][1], p), 1>>>>, hl |-> <<>>]

\* the property's statements on the specification (ideal reading only)
FirstAndLastHoldTheSpan == Dev("display_prev_line") \/ \A a \in 0..N : \A b \in a..N :
  LET lay == SpanLayout(a, b)
      f == lay.nums[1][1]
      l == lay.nums[Len(lay.nums)][1]
  IN /\ L[f][1] <= a /\ (a < L[f][2] \/ (a = N /\ f = NL))
     /\ (a < b => L[l][1] <= b - 1 /\ b - 1 < L[l][2])
     /\ \A k \in 1..Len(lay.nums) : lay.nums[k][2] = Pict(L[lay.nums[k][1]][1], L[lay.nums[k][1]][2])

\* all spans (a <= b) in lexicographic order
SpanSeq == FlattenSeq([a1 \in 1..(N + 1) |-> [k \in 1..(N - a1 + 2) |-> <<a1 - 1, a1 + k - 2>>]])
Rec == [s |-> s,
        spans |-> [i \in 1..Len(SpanSeq) |-> [a |-> Bytes(SpanSeq[i][1]), b |-> Bytes(SpanSeq[i][2])] @@ SpanLayout(SpanSeq[i][1], SpanSeq[i][2])],
        poss |-> [p \in 1..(N + 1) |-> [p |-> Bytes(p - 1)] @@ PosLayout(p - 1)]]
Emit == PrintT(<<"B", ToJson(Rec)>>)
=============================================================================
