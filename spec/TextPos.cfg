SPECIFICATION Spec
INVARIANT ScannerAgrees
INVARIANT LineHoldsPosition
INVARIANT ColumnsCountChars
INVARIANT Emit
CHECK_DEADLOCK FALSE
