------------------------------ MODULE TextPos ------------------------------
(***************************************************************************)
(* C12: line / column / line text of every position.                        *)
(* The machine grows a string one character class at a time and carries     *)
(* the scanner state (line, col, start of the current line); every string   *)
(* up to MaxLen over the alphabet is one reachable state.  Two independent  *)
(* formulations are compared in every state: the incremental scanner and    *)
(* the loop of Position::line_col (CR peeks for LF).  Each state prints the *)
(* expected (line, col, line start, line end) of every position, in bytes.  *)
(***************************************************************************)
EXTENDS Integers, Sequences, FiniteSets, TLC, Json, IOUtils

LF == 10
CR == 13
Alphabet == {LF, CR, 97, 233, 20013, 128512}     \* LF, CR, 1-, 2-, 3-, 4-byte character
MaxLen == IF "VERIF_MAXLEN" \in DOMAIN IOEnv THEN atoi(IOEnv.VERIF_MAXLEN) ELSE 5

VARIABLES s, line, col, ls
vars == <<s, line, col, ls>>

W(c) == IF c < 128 THEN 1 ELSE IF c < 2048 THEN 2 ELSE IF c < 65536 THEN 3 ELSE 4
RECURSIVE Bytes(_, _)
Bytes(str, p) == IF p = 0 THEN 0 ELSE W(str[p]) + Bytes(str, p - 1)

Init == s = <<>> /\ line = 1 /\ col = 1 /\ ls = 0

\* incremental scanner: LF ends the line; everything else (a lone CR too) is a column
Extend(c) ==
  /\ Len(s) < MaxLen
  /\ s' = Append(s, c)
  /\ IF c = LF THEN line' = line + 1 /\ col' = 1 /\ ls' = Len(s) + 1
     ELSE line' = line /\ col' = col + 1 /\ ls' = ls
Next == \E c \in Alphabet : Extend(c)
Spec == Init /\ [][Next]_vars

\* the loop of Position::line_col on the slice str[1..p]: CR followed (inside the slice) by LF is one break
RECURSIVE Scan(_, _, _, _, _)
Scan(str, p, i, l, c) ==
  IF i > p THEN <<l, c>>
  ELSE IF str[i] = CR THEN
         IF i + 1 <= p /\ str[i + 1] = LF THEN Scan(str, p, i + 2, l + 1, 1) ELSE Scan(str, p, i + 1, l, c + 1)
       ELSE IF str[i] = LF THEN Scan(str, p, i + 1, l + 1, 1)
       ELSE Scan(str, p, i + 1, l, c + 1)
LineCol(str, p) == Scan(str, p, 1, 1, 1)

\* line text: from after the last LF strictly before p up to and including the first LF at or after p
LineStart(str, p) == IF \E i \in 1..p : str[i] = LF THEN CHOOSE i \in 1..p : str[i] = LF /\ \A j \in (i + 1)..p : str[j] # LF ELSE 0
LineEnd(str, p) == IF \E i \in (p + 1)..Len(str) : str[i] = LF
                   THEN CHOOSE i \in (p + 1)..Len(str) : str[i] = LF /\ \A j \in (p + 1)..(i - 1) : str[j] # LF
                   ELSE Len(str)

ScannerAgrees == LineCol(s, Len(s)) = <<line, col>> /\ LineStart(s, Len(s)) = ls
LineHoldsPosition == \A p \in 0..Len(s) : LineStart(s, p) <= p /\ p <= LineEnd(s, p)
                                          /\ \A i \in (LineStart(s, p) + 1)..(LineEnd(s, p) - 1) : s[i] # LF
ColumnsCountChars == \A p \in 0..Len(s) : LineCol(s, p)[2] = p - LineStart(s, p) + 1

Row(p) == <<Bytes(s, p), LineCol(s, p)[1], LineCol(s, p)[2], Bytes(s, LineStart(s, p)), Bytes(s, LineEnd(s, p))>>
Emit == PrintT(<<"B", ToJson([s |-> s, at |-> [p \in 1..(Len(s) + 1) |-> Row(p - 1)]])>>)
=============================================================================
