SPECIFICATION TSpec
INVARIANT RowsMatch
CONSTRAINT Progress
POSTCONDITION Accepted
CHECK_DEADLOCK FALSE
