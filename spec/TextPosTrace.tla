--------------------------- MODULE TextPosTrace ---------------------------
(* Direction (B) for C12: observations recorded from the real Position on long texts are *)
(* validated, record by record, against the operators of TextPos.                        *)
EXTENDS TextPos

Rec == ndJsonDeserialize(IOEnv.VERIF_TRACE)
VARIABLE l
TInit == l = 1 /\ s = Rec[1].s /\ line = 1 /\ col = 1 /\ ls = 0
TNext == l < Len(Rec) /\ l' = l + 1 /\ s' = Rec[l + 1].s /\ UNCHANGED <<line, col, ls>>
TSpec == TInit /\ [][TNext]_<<vars, l>>
\* every recorded row [offset, line, col, line start, line end] is the one the specification computes
RowsMatch == /\ Len(Rec[l].at) = Len(s) + 1
             /\ \A k \in 1..Len(Rec[l].at) : Rec[l].at[k] = Row(k - 1)
Progress == TLCSet(1, l)
Accepted == TLCGet(1) = Len(Rec)
=============================================================================
