SPECIFICATION Spec
INVARIANT LinesAreLines
INVARIANT MergeIsHull
INVARIANT Emit
CHECK_DEADLOCK FALSE
