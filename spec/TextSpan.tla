------------------------------ MODULE TextSpan ------------------------------
(***************************************************************************)
(* C13: Span operations.  Same string-growing machine as TextPos; for every *)
(* string the expected results of Span::new (validity matrix), get (all     *)
(* four range forms), lines / lines_span and merge_spans are printed, in    *)
(* bytes, and the statements of the property are checked as invariants on   *)
(* the specification itself.                                                *)
(***************************************************************************)
EXTENDS Integers, Sequences, FiniteSets, TLC, Json, IOUtils, SequencesExt

LF == 10
Alphabet == {LF, 13, 97, 233, 20013}     \* LF, CR, 1-, 2-, 3-byte character
MaxLen == IF "VERIF_MAXLEN" \in DOMAIN IOEnv THEN atoi(IOEnv.VERIF_MAXLEN) ELSE 4
TableLen == IF "VERIF_TABLELEN" \in DOMAIN IOEnv THEN atoi(IOEnv.VERIF_TABLELEN) ELSE 3

VARIABLE s
Init == s = <<>>
Next == \E c \in Alphabet : Len(s) < MaxLen /\ s' = Append(s, c)
Spec == Init /\ [][Next]_s

W(c) == IF c < 128 THEN 1 ELSE IF c < 2048 THEN 2 ELSE IF c < 65536 THEN 3 ELSE 4
RECURSIVE Bytes(_)
Bytes(p) == IF p = 0 THEN 0 ELSE W(s[p]) + Bytes(p - 1)
N == Len(s)

\* a span is a pair of character positions 0 <= a <= b <= N (non-boundary byte offsets give None)
Spans == {<<a, b>> \in (0..N) \X (0..N) : a <= b}
SpanSeq == FlattenSeq([a1 \in 1..(N + 1) |-> [k \in 1..(N - a1 + 2) |-> <<a1 - 1, a1 + k - 2>>]])

LineStart(p) == IF \E i \in 1..p : s[i] = LF THEN CHOOSE i \in 1..p : s[i] = LF /\ \A j \in (i + 1)..p : s[j] # LF ELSE 0
LineEnd(p) == IF \E i \in (p + 1)..N : s[i] = LF
              THEN CHOOSE i \in (p + 1)..N : s[i] = LF /\ \A j \in (p + 1)..(i - 1) : s[j] # LF ELSE N

\* LinesSpan::next with state pos
RECURSIVE LinesFrom(_, _)
LinesFrom(pos, b) ==
  IF pos > b \/ pos = N THEN <<>>
  ELSE <<<<LineStart(pos), LineEnd(pos)>>>> \o LinesFrom(LineEnd(pos), b)
Lines(sp) == LinesFrom(sp[1], sp[2])

\* get(x..y) relative to the span, by characters; the byte forms are derived when printing
GetOK(sp, x, y) == x <= y /\ sp[1] + y <= sp[2]
Merge(p, q) == IF p[2] >= q[1] /\ p[1] <= q[2]
               THEN <<TRUE, IF p[1] < q[1] THEN p[1] ELSE q[1], IF p[2] > q[2] THEN p[2] ELSE q[2]>>
               ELSE <<FALSE, 0, 0>>

--------------------------------------------------------------------------
(* the property's statements, on the specification *)
LinesAreLines == \A sp \in Spans : LET L == Lines(sp) IN
  /\ \A i \in 1..Len(L) : L[i][1] < L[i][2] /\ (L[i][1] = 0 \/ s[L[i][1]] = LF)
                          /\ (L[i][2] = N \/ s[L[i][2]] = LF) /\ \A j \in (L[i][1] + 1)..(L[i][2] - 1) : s[j] # LF
  /\ \A i \in 1..(Len(L) - 1) : L[i][2] = L[i + 1][1]                 \* in order, each once
  /\ (Len(L) > 0 => L[1][1] <= sp[1] /\ sp[1] < L[1][2])              \* starts at the line holding the start
  /\ (Len(L) > 0 => L[Len(L)][2] >= sp[2] \/ L[Len(L)][2] = N)       \* reaches the end of the span
  /\ (Len(L) = 0 <=> sp[1] = N)
MergeIsHull == \A p, q \in Spans : LET m == Merge(p, q) IN
  /\ m[1] <=> ~(p[2] < q[1] \/ q[2] < p[1])
  /\ m[1] => (m[2] <= p[1] /\ m[2] <= q[1] /\ m[3] >= p[2] /\ m[3] >= q[2] /\ m[2] \in {p[1], q[1]} /\ m[3] \in {p[2], q[2]})

--------------------------------------------------------------------------
B(p) == Bytes(p)
BSpan(sp) == <<B(sp[1]), B(sp[2])>>
SS == SpanSeq
LinesRec == [i \in 1..Len(SS) |-> LET L == Lines(SS[i]) IN [k \in 1..Len(L) |-> BSpan(L[k])]]
\* accepted (x, y) of each range form, as byte offsets relative to the span start
Rel(sp, x) == B(sp[1] + x) - B(sp[1])
PairsOf(sp) == LET n == sp[2] - sp[1]
                   ps == {<<x, y>> \in (0..n) \X (0..n) : x <= y}
                   key(q) == q[1] * (n + 1) + q[2]
               IN [i \in 1..Cardinality(ps) |-> LET q == CHOOSE q \in ps : Cardinality({r \in ps : key(r) < key(q)}) = i - 1
                                                IN <<Rel(sp, q[1]), Rel(sp, q[2])>>]
GetRec == [i \in 1..Len(SS) |-> PairsOf(SS[i])]
MergeRec == [i \in 1..Len(SS) |-> [j \in 1..Len(SS) |-> LET m == Merge(SS[i], SS[j]) IN
                                     IF m[1] THEN <<B(m[2]), B(m[3])>> ELSE <<>>]]
Rec == [s |-> s, n |-> B(N), spans |-> [i \in 1..Len(SS) |-> BSpan(SS[i])], lines |-> LinesRec]
       @@ (IF N <= TableLen THEN [get |-> GetRec, merge |-> MergeRec] ELSE [t |-> 0])
Emit == PrintT(<<"B", ToJson(Rec)>>)
=============================================================================
