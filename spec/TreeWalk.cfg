SPECIFICATION Spec
INVARIANT WalksAreRight
INVARIANT Nested
INVARIANT Emit
CHECK_DEADLOCK FALSE
