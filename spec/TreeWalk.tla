------------------------------ MODULE TreeWalk ------------------------------
(***************************************************************************)
(* C15: the traversal helpers of iterators.rs as machines over an arbitrary *)
(* ordered tree.  Phase "grow": every balanced word "(" t* ")" with at most  *)
(* MaxNodes pairs is built (= every ordered tree with that many nodes; the   *)
(* word is also the input that makes the parser produce exactly this tree).  *)
(* Phase "walk": the two-queue level-order iterator and the stack-of-queues  *)
(* pre-order iterator run step by step; when both have finished their visit  *)
(* sequences must be the BFS / DFS order of the tree, each node once.        *)
(***************************************************************************)
EXTENDS Integers, Sequences, FiniteSets, TLC, Json, IOUtils, SequencesExt

MaxNodes == IF "VERIF_MAXNODES" \in DOMAIN IOEnv THEN atoi(IOEnv.VERIF_MAXNODES) ELSE 5
OPEN == 40
CLOSE == 41

VARIABLES w,        \* the word, a sequence over {OPEN, CLOSE}
          ph,       \* "grow" | "walk" | "done"
          lq, ln, lv,   \* level-order: current queue, next queue, visited
          ps, pv        \* pre-order: stack of queues, visited <<node, depth>>
vars == <<w, ph, lq, ln, lv, ps, pv>>

Opens(x) == Cardinality({i \in 1..Len(x) : x[i] = OPEN})
Depth(x) == Opens(x) - (Len(x) - Opens(x))

\* a node is the index of its "("; its span ends after the matching ")"
RECURSIVE MatchFrom(_, _, _)
MatchFrom(i, j, d) == IF w[j] = OPEN THEN MatchFrom(i, j + 1, d + 1)
                      ELSE IF d = 1 THEN j ELSE MatchFrom(i, j + 1, d - 1)
Close(i) == MatchFrom(i, i + 1, 1)
RECURSIVE KidsFrom(_, _)
KidsFrom(j, e) == IF j >= e THEN <<>> ELSE <<j>> \o KidsFrom(Close(j) + 1, e)
Kids(i) == KidsFrom(i + 1, Close(i))
Root == 1
Nodes == {i \in 1..Len(w) : w[i] = OPEN}

Init == w = <<OPEN>> /\ ph = "grow" /\ lq = <<>> /\ ln = <<>> /\ lv = <<>> /\ ps = <<>> /\ pv = <<>>

GrowOpen == ph = "grow" /\ Opens(w) < MaxNodes /\ Depth(w) > 0 /\ w' = Append(w, OPEN) /\ UNCHANGED <<ph, lq, ln, lv, ps, pv>>
GrowClose == ph = "grow" /\ Depth(w) > 0 /\ w' = Append(w, CLOSE) /\ UNCHANGED <<ph, lq, ln, lv, ps, pv>>
\* the word is one complete tree: start both iterators on the root token
Start == ph = "grow" /\ Depth(w) = 0 /\ ph' = "walk" /\ lq' = <<Root>> /\ ln' = <<>> /\ lv' = <<>>
         /\ ps' = <<<<Root>>>> /\ pv' = <<>> /\ UNCHANGED w

\* iterate_level_order: pop_front of queue, visit, extend next with the children; swap when queue is empty
LvlVisit == ph = "walk" /\ lq # <<>> /\ lv' = Append(lv, Head(lq)) /\ ln' = ln \o Kids(Head(lq)) /\ lq' = Tail(lq)
            /\ UNCHANGED <<w, ph, ps, pv>>
LvlSwap == ph = "walk" /\ lq = <<>> /\ ln # <<>> /\ lq' = ln /\ ln' = <<>> /\ UNCHANGED <<w, ph, lv, ps, pv>>
LvlDone == lq = <<>> /\ ln = <<>>

\* iterate_pre_order: stack of queues; pop_front of the top queue, visit with depth = stack height - 1, push its children
PreVisit == ph = "walk" /\ ps # <<>> /\ ps[Len(ps)] # <<>> /\
            LET n == Head(ps[Len(ps)]) IN
            /\ pv' = Append(pv, <<n, Len(ps) - 1>>)
            /\ ps' = Append([ps EXCEPT ![Len(ps)] = Tail(@)], Kids(n))
            /\ UNCHANGED <<w, ph, lq, ln, lv>>
PrePop == ph = "walk" /\ ps # <<>> /\ ps[Len(ps)] = <<>> /\ ps' = SubSeq(ps, 1, Len(ps) - 1) /\ UNCHANGED <<w, ph, lq, ln, lv, pv>>
PreDone == ps = <<>>

Finish == ph = "walk" /\ LvlDone /\ PreDone /\ ph' = "done" /\ UNCHANGED <<w, lq, ln, lv, ps, pv>>

Next == GrowOpen \/ GrowClose \/ Start \/ LvlVisit \/ LvlSwap \/ PreVisit \/ PrePop \/ Finish
Spec == Init /\ [][Next]_vars

\* reference orders, defined independently of the iterators
RECURSIVE Dfs(_, _), DfsAll(_, _)
Dfs(n, d) == <<<<n, d>>>> \o DfsAll(Kids(n), d + 1)
DfsAll(ks, d) == IF ks = <<>> THEN <<>> ELSE Dfs(Head(ks), d) \o DfsAll(Tail(ks), d)
RECURSIVE Bfs(_)
Bfs(level) == IF level = <<>> THEN <<>> ELSE level \o Bfs(FlattenSeq([i \in 1..Len(level) |-> Kids(level[i])]))

WalksAreRight == ph = "done" =>
  /\ pv = Dfs(Root, 0)
  /\ lv = Bfs(<<Root>>)
  /\ {pv[i][1] : i \in 1..Len(pv)} = Nodes /\ Len(pv) = Cardinality(Nodes)      \* every token exactly once
  /\ {lv[i] : i \in 1..Len(lv)} = Nodes /\ Len(lv) = Cardinality(Nodes)
\* spans nested in their parent and ordered among siblings
Nested == ph = "done" => \A n \in Nodes : LET k == Kids(n) IN
  /\ \A i \in 1..Len(k) : n < k[i] /\ Close(k[i]) < Close(n)
  /\ \A i \in 1..(Len(k) - 1) : Close(k[i]) < k[i + 1]

SpanOf(n) == <<n - 1, Close(n)>>
Rec == [w |-> w,
        pre |-> [i \in 1..Len(pv) |-> <<SpanOf(pv[i][1])[1], SpanOf(pv[i][1])[2], pv[i][2]>>],
        lvl |-> [i \in 1..Len(lv) |-> SpanOf(lv[i])],
        kids |-> [i \in 1..Len(Kids(Root)) |-> SpanOf(Kids(Root)[i])]]
Emit == ph = "done" => PrintT(<<"B", ToJson(Rec)>>)
=============================================================================
