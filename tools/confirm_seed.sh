#!/bin/bash
# usage: tools/confirm_seed.sh <name>   (agent worktree /tmp/seed/<name>, deliverables /tmp/seed/<name>.out)
# Confirms: patch applies to a clean tree; suite passes with it; demo fails with it and passes without it.
n="$1"; wt=/tmp/seed/$n; out=/tmp/seed/$n.out
cd "$wt" || exit 2
demo_path=$(head -5 "$out/demo.rs" | grep -oE '(derive|main|generator)/tests/[A-Za-z0-9_]+\.rs' | head -1)
[ -z "$demo_path" ] && demo_path=derive/tests/seeded_demo.rs
pkg=pest_typed_derive; case "$demo_path" in main/*) pkg=pest_typed;; generator/*) pkg=pest_typed_generator;; esac
tname=$(basename "$demo_path" .rs)
git checkout -q -- . ; git clean -fdq -e target
git apply --check "$out/patch.diff" || { echo "$n: PATCH DOES NOT APPLY"; exit 1; }
git apply "$out/patch.diff"
cargo fmt --all -- --check >/dev/null 2>&1 || echo "$n: note: not rustfmt-clean"
suite=$(cargo test --workspace --no-fail-fast --offline 2>&1 | grep -E "^test result" | awk '{p+=$4; f+=$6} END {print p" passed "f" failed"}')
git status --porcelain | grep -v "^??" | grep -vE "$(git apply --numstat "$out/patch.diff" -R 2>/dev/null | awk '{print $3}' | paste -sd'|')" | head -3
cp "$out/demo.rs" "$demo_path"
with=$(cargo test -p $pkg --test $tname --offline 2>&1 | grep -E "^test result" | tail -1)
git apply -R "$out/patch.diff"
without=$(cargo test -p $pkg --test $tname --offline 2>&1 | grep -E "^test result" | tail -1)
rm -f "$demo_path"
echo "$n: suite-with-change: $suite | demo-with: $with | demo-without: $without"
