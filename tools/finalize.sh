#!/bin/bash
# Regenerate every evidence file on the clean tree (quick tier, seed 1), validate evidence + manifest against their schemas.
cd /verif || exit 2
[ -n "$(git -C /repo status --porcelain)" ] && { echo "/repo is not clean"; exit 2; }
fail=0
for i in $(seq -w 1 20); do
  p=C$i
  out=$(VERIF_SEED=1 ./check $p --tier quick 2>&1); rc=$?
  echo "$p rc=$rc $(echo "$out" | grep -E "^$p " | cut -c1-120)"
  [ $rc -ne 0 ] && { fail=1; echo "$out" | grep -E "^(VIOLATION|TOOL-ERROR)" | head -3; }
done
python3 tools/mkmanifest.py
python3-vt - <<'PY'
import json, jsonschema, glob
ms = json.load(open('/root/.vp/MANIFEST.schema.json')); es = json.load(open('/root/.vp/EVIDENCE.schema.json'))
jsonschema.validate(json.load(open('/verif/MANIFEST.json')), ms)
for f in sorted(glob.glob('/verif/evidence/C*.json')):
    jsonschema.validate(json.load(open(f)), es)
print("schemas ok:", len(glob.glob('/verif/evidence/C*.json')), "evidence files")
PY
rm -rf replay
exit $fail
