#!/usr/bin/env python3
"""tools/keep_seed.py <name> <detected_by comma list> -- store a confirmed seeded change under /verif/seeded/<name>/"""
import sys, os, json, shutil, re
name, det = sys.argv[1], sys.argv[2]
src = "/tmp/seed/%s.out" % name
dst = "/verif/seeded/%s" % name
os.makedirs(dst, exist_ok=True)
for f in ("patch.diff", "demo.rs"):
    shutil.copy(os.path.join(src, f), os.path.join(dst, f))
try:
    meta = json.load(open(os.path.join(src, "meta.json")))
except Exception:
    meta = {}
log = open("/tmp/seed/confirm.log").read() if os.path.exists("/tmp/seed/confirm.log") else ""
line = [l for l in log.splitlines() if l.startswith(name + ":")]
out = {"property": meta.get("property", re.match(r"(C\d+)", name).group(1)), "summary": meta.get("summary"), "needs": meta.get("needs"),
       "files": meta.get("files"), "agent_ran": meta.get("ran"),
       "confirmed_by_me": {"how": "tools/confirm_seed.sh in a scratch worktree of /repo HEAD (with the fix: commits): patch applies to the clean tree; cargo test --workspace --no-fail-fast --offline with the change; the demo test with the change and with the change reverted", "result": line[-1] if line else None},
       "detected_by_quick_checks": [d for d in det.split(",") if d]}
json.dump(out, open(os.path.join(dst, "meta.json"), "w"), indent=1, ensure_ascii=False)
print("kept", dst)
