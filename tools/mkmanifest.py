#!/usr/bin/env python3
"""Regenerate MANIFEST.json from the table below (keeps it schema-valid at all times)."""
import json, os, sys
V = os.path.dirname(os.path.dirname(os.path.abspath(__file__)))
props = [json.loads(l) for l in open(os.path.join(V, "properties.jsonl"))]
sys.path.insert(0, os.path.join(V, "lib"))
import manifest_table as T
checks = []
na = []
for p in props:
    pid = p["id"]
    if pid in T.CLAIMED:
        c = T.CLAIMED[pid]
        checks.append({
            "property_id": pid,
            "quick_cmd": "./check %s --tier quick" % pid,
            "thorough_cmd": "./check %s --tier thorough" % pid,
            "evidence_file": "evidence/%s.json" % pid,
            "replay_cmd_template": "./check %s --replay {path}" % pid,
            "engine": c.get("engine", "peg"),
            "level_claimed": {"category": c.get("category", "model_checking"), "text": c["text"], "design_ref": c.get("ref", "DESIGN.md section 6")},
            "level_note": c["note"],
            "technique": c["technique"],
        })
    else:
        na.append({"property_id": pid, "reason": T.NOT_YET.get(pid, "check not built yet in this round; planned with the TLA+ specification (DESIGN.md section 6)")})
m = {
    "version": 1,
    "setup_cmd": "./check --setup",
    "hooks": {"guard": "pest_typed_verif", "enable": "harness/.cargo/config.toml sets rustflags --cfg pest_typed_verif for the harness workspace, which builds /repo/main, /repo/generator and /repo/derive as path dependencies",
              "baseline_off_cmd": "cd /repo && cargo test --workspace --no-fail-fast --offline", "source_commits": T.HOOK_COMMITS, "add_only": True},
    "engines": T.ENGINES,
    "checks": checks,
    "notes": T.NOTES,
    "not_applicable": na,
}
json.dump(m, open(os.path.join(V, "MANIFEST.json"), "w"), indent=1)
print("claimed", len(checks), "not_applicable", len(na))
