#!/bin/bash
# usage: tools/regress_seeds.sh [seed names...]   -- every stored seeded change must still be reported by the first check
# listed in its meta.json (quick tier). Uses one scratch worktree (/tmp/seed/regress) and tools/try_seed_scratch.sh.
cd /verif
names="$@"; [ -z "$names" ] && names=$(ls seeded)
wt=/tmp/seed/regress
git -C /repo worktree remove --force $wt 2>/dev/null
git -C /repo worktree add --detach -f $wt HEAD >/dev/null 2>&1 || exit 2
for n in $names; do
  prop=$(python3 -c "import json;m=json.load(open('/verif/seeded/$n/meta.json'));d=m.get('detected_by_quick_checks') or [];print(d[0] if d else '')")
  [ -z "$prop" ] && { echo "$n: (not expected to be reported)"; continue; }
  (cd $wt && git checkout -q -- . && git clean -fdq -e target)
  if ! (cd $wt && git apply /verif/seeded/$n/patch.diff 2>/dev/null); then
    ok=0
    for c in 78ebd0b; do
      (cd $wt && git checkout -q -- . && git show $c | git apply -R && git apply /verif/seeded/$n/patch.diff) && { ok=1; break; }
    done
    [ $ok = 1 ] || { echo "$n: PATCH DOES NOT APPLY"; continue; }
  fi
  out=$(LINES_MAX=2 tools/try_seed_scratch.sh $wt $prop 2>&1)
  ex=$(echo "$out" | grep -o "exit=[0-9]*" | tail -1)
  echo "$n: $prop $ex $(echo "$out" | grep -m1 -E '^(VIOLATION|TOOL-ERROR)' | cut -c1-160)"
done
git -C /repo worktree remove --force $wt
