#!/bin/bash
# usage: tools/try_seed.sh <patch.diff> <prop> [<prop>...]   -- apply a seeded change to /repo, run the quick checks, undo it.
set -u
patch="$1"; shift
cd /repo || exit 2
if [ -n "$(git status --porcelain)" ]; then echo "/repo not clean"; exit 2; fi
git apply "$patch" || { echo "patch does not apply"; exit 2; }
trap 'git -C /repo checkout -- . ; git -C /repo clean -fdq' EXIT
cd /verif
for p in "$@"; do
  echo "=== $p with $(basename $(dirname $patch))/$(basename $patch)"
  ./check "$p" --tier "${TIER:-quick}" 2>&1 | grep -E "^(VIOLATION|KNOWN-FINDING|TOOL-ERROR|C[0-9]+ )" | cut -c1-300 | head -${LINES_MAX:-6}
  echo "exit=${PIPESTATUS[0]}"
done
