#!/bin/bash
# usage: tools/try_seed.sh <patch.diff> <prop> [<prop>...]   -- apply a seeded change to /repo, run the quick checks, undo it.
set -u
patch="$1"; shift
cd /repo || exit 2
if [ -n "$(git status --porcelain)" ]; then echo "/repo not clean"; exit 2; fi
trap 'git -C /repo checkout -- . ; git -C /repo clean -fdq' EXIT
if ! git apply "$patch" 2>/dev/null; then
  # the seed was made before a later fix: commit touched the same lines: undo that commit in the working tree first
  ok=0
  for c in ${REVERT:-78ebd0b}; do
    git checkout -q -- . ; git show "$c" | git apply -R && git apply "$patch" && { echo "(applied on top of the tree without $c)"; ok=1; break; }
  done
  [ $ok = 1 ] || { echo "patch does not apply"; exit 2; }
fi
cd /verif
for p in "$@"; do
  echo "=== $p with $(basename $(dirname $patch))/$(basename $patch)"
  ./check "$p" --tier "${TIER:-quick}" 2>&1 | grep -E "^(VIOLATION|KNOWN-FINDING|TOOL-ERROR|C[0-9]+ )" | cut -c1-300 | head -${LINES_MAX:-6}
  echo "exit=${PIPESTATUS[0]}"
done
