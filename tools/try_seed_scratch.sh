#!/bin/bash
# usage: tools/try_seed_scratch.sh <worktree-of-/repo-with-the-change-applied> <prop> [<prop>...]
# Runs the checks of a scratch copy of /verif (under /tmp/vs, path dependencies switched to /tmp/vs_repo -> <worktree>)
# against a modified worktree, without touching /repo: for use while /repo is serving another run.
# The copy is refreshed from /verif on every call; sources of the worktree are touched so that cargo rebuilds them.
set -u
wt="$1"; shift
mkdir -p /tmp/vs
rsync -a --exclude build --exclude .git --exclude replay --exclude harness/fam --exclude harness/Cargo.toml --exclude harness/Cargo.lock /verif/ /tmp/vs/
ln -sfn "$wt" /tmp/vs_repo
cd /tmp/vs || exit 2
sed -i 's#/repo/#/tmp/vs_repo/#g' lib/famgen.py lib/families.py lib/textchk.py harness/genrun/Cargo.toml harness/hcommon/Cargo.toml harness/textrun/Cargo.toml
if [ -d harness/fam ]; then grep -rl '"/repo/' harness/fam --include=Cargo.toml | xargs -r sed -i 's#/repo/#/tmp/vs_repo/#g'; fi
find "$wt/main" "$wt/derive" "$wt/generator" -name "*.rs" -not -path "*/target/*" -exec touch {} +
(cd "$wt" && git status --porcelain | grep -v '^??' | head -5)
for p in "$@"; do
  echo "=== $p with $(basename $wt)"
  ./check "$p" --tier "${TIER:-quick}" 2>&1 | grep -E "^(VIOLATION|KNOWN-FINDING|TOOL-ERROR|C[0-9]+ )" | cut -c1-300 | head -${LINES_MAX:-6}
  echo "exit=${PIPESTATUS[0]}"
done
